(* Glue around the extracted Coq model (Model.judge): parse case lines, call the
   model, print disagreements and a summary.  No arithmetic happens here.

   case line:  <fam> <cfg> <op> <args> <res>
     fam, op    decimal
     cfg        comma separated decimal integers
     args, res  comma separated lower-case hex (two's complement never used:
                every field is a non-negative bit pattern), "-" for empty
   lines starting with '#' are passed through (driver diagnostics). *)

open Model

let z_of_hex (s : string) : z =
  (* positive built MSB first: XH then shift in remaining bits *)
  let bits = Buffer.create 64 in
  String.iter (fun c ->
      let v = match c with
        | '0'..'9' -> Char.code c - 48
        | 'a'..'f' -> Char.code c - 87
        | 'A'..'F' -> Char.code c - 55
        | _ -> failwith ("bad hex digit in " ^ s) in
      for i = 3 downto 0 do Buffer.add_char bits (if (v lsr i) land 1 = 1 then '1' else '0') done) s;
  let b = Buffer.contents bits in
  let n = String.length b in
  let rec skip i = if i < n && b.[i] = '0' then skip (i+1) else i in
  let i0 = skip 0 in
  if i0 >= n then Z0 else begin
    let p = ref XH in
    for i = i0 + 1 to n - 1 do
      p := if b.[i] = '1' then XI !p else XO !p
    done;
    Zpos !p end

let z_of_dec (s : string) : z =
  (* small decimals only (cfg, op, fam) *)
  let neg = String.length s > 0 && s.[0] = '-' in
  let v = int_of_string s in
  let rec pos_of_int k = if k = 1 then XH else if k land 1 = 1 then XI (pos_of_int (k lsr 1)) else XO (pos_of_int (k lsr 1)) in
  if v = 0 then Z0 else if neg then Zneg (pos_of_int (-v)) else Zpos (pos_of_int v)

let hex_of_z (x : z) : string =
  match x with
  | Z0 -> "0"
  | Zneg _ -> "NEG"
  | Zpos p ->
    let rec bits p acc = match p with XH -> 1 :: acc | XO q -> bits q (0 :: acc) | XI q -> bits q (1 :: acc) in
    let bl = bits p [] in (* MSB first *)
    let n = List.length bl in
    let pad = (4 - n mod 4) mod 4 in
    let bl = List.init pad (fun _ -> 0) @ bl in
    let buf = Buffer.create 16 in
    let rec go = function
      | a :: b :: c :: d :: rest -> Buffer.add_char buf "0123456789abcdef".[a*8+b*4+c*2+d]; go rest
      | _ -> () in
    go bl; Buffer.contents buf

let split_list conv s = if s = "-" || s = "" then [] else List.map conv (String.split_on_char ',' s)

let () =
  let max_print = ref 1000000 and nsamples = ref 6 and verdicts = ref false in
  Array.iteri (fun i a -> if a = "--max-print" then max_print := int_of_string Sys.argv.(i+1)
                          else if a = "--samples" then nsamples := int_of_string Sys.argv.(i+1)
                          else if a = "--verdicts" then verdicts := true) Sys.argv;
  let n = ref 0 and nt = ref 0 and mism = ref 0 and bad = ref 0 in
  let seen : (int, unit) Hashtbl.t = Hashtbl.create 100003 in
  let distinct = ref 0 in
  let per : (string, int * int) Hashtbl.t = Hashtbl.create 97 in   (* "fam cfg op" -> count, mismatches *)
  (try
    while true do
      let line = input_line stdin in
      if String.length line = 0 then ()
      else if line.[0] = '#' then print_endline line
      else if not (line.[0] >= '0' && line.[0] <= '9') then Printf.printf "# library output: %s\n" line   (* text the library itself printed on stdout *)
      else begin
        match String.split_on_char ' ' line with
        | [fam; cfg; op; args; res] ->
          (try
            (* a result starting with '!' is an exception / signal: the model sees an empty result *)
            let resl = if String.length res > 0 && res.[0] = '!' then [] else split_list z_of_hex res in
            let v = judge (z_of_dec fam) (split_list z_of_dec cfg) (z_of_dec op)
                      (split_list z_of_hex args) resl in
            incr n;
            (* extraction self-check: the complete verdict, one line per case, compared with the same term evaluated inside Coq *)
            if !verdicts then
              Printf.printf "V %d %d %s\n" (if v_ok v then 1 else 0) (if v_nontrivial v then 1 else 0)
                (match v_model v with [] -> "-" | l -> String.concat "," (List.map hex_of_z l));
            let key = fam ^ " " ^ cfg ^ " " ^ op in
            let (c, m) = try Hashtbl.find per key with Not_found -> (0, 0) in
            if v_nontrivial v then begin
              incr nt;
              let h = Hashtbl.hash line in
              if not (Hashtbl.mem seen h) then (Hashtbl.add seen h (); incr distinct)
            end;
            if c < !nsamples && (c = 0 || v_nontrivial v) then Printf.printf "S %s\n" line;
            if not (v_ok v) then begin
              incr mism;
              Hashtbl.replace per key (c+1, m+1);
              if m < !max_print then
                Printf.printf "M %s => %s\n" line
                  (match v_model v with [] -> "-" | l -> String.concat "," (List.map hex_of_z l))
            end else Hashtbl.replace per key (c+1, m)
          with Failure msg -> (incr bad; Printf.printf "B %s (%s)\n" line msg))
        | _ -> (incr bad; Printf.printf "B %s (field count)\n" line)
      end
    done
  with End_of_file -> ());
  Hashtbl.iter (fun k (c, m) -> Printf.printf "P %s n=%d mismatches=%d\n" k c m) per;
  Printf.printf "SUMMARY n=%d nontrivial=%d distinct_nontrivial=%d mismatches=%d bad=%d\n" !n !nt !distinct !mism !bad
