"""Named input-class predicates used by KNOWN_FINDINGS.json entries (never written at run time).
Each takes the parsed mismatch dict: fam, cfg (str), op, opname, args (csv hex), impl (csv hex), model (csv hex)."""


def ints(csv):
    return [int(x, 16) for x in csv.split(',') if x not in ('', '-') and not x.startswith('!')]


def cfg_ints(c):
    return [int(x) for x in c['cfg'].split(',')]


PRED = {}


def pred(f):
    PRED[f.__name__] = f
    return f


@pred
def multi_limb_u64(c):
    """integer<n, uint64_t> with more than one limb"""
    n, bt = cfg_ints(c)[:2]
    return bt == 64 and n > 64


def _lns_scale(n, r, enc):
    """|E| / 2^r of an lns encoding (E = two's complement of the low n-1 bits)"""
    m = enc & ((1 << (n - 1)) - 1)
    if m >= 1 << (n - 2):
        m -= 1 << (n - 1)
    return abs(m) / float(1 << r)


@pred
def lns_addsub_beyond_double(c):
    n, r = cfg_ints(c)[:2]
    a = ints(c['args'])
    if r >= 24:
        return True
    return any(_lns_scale(n, r, x) >= 1000 for x in a)


def _cf(c):
    n, es, sub, sup, sat = cfg_ints(c)[:5]
    return n, es, sub, sup, sat, n - 1 - es


def _mag(n, x):
    return x & ((1 << (n - 1)) - 1)


@pred
def sat_overflow_gives_inf(c):
    n, es, sub, sup, sat, fb = _cf(c)
    i, m = ints(c['impl']), ints(c['model'])
    if len(i) != 1 or len(m) != 1:
        return False
    top = ((1 << es) - 1) * (1 << fb) - 1
    inf = (1 << (n - 1)) - 2
    return sat == 1 and sup == 0 and _mag(n, m[0]) == top and _mag(n, i[0]) == inf and (i[0] >> (n - 1)) == (m[0] >> (n - 1))


@pred
def operand_is_inf_pattern(c):
    n, es, sub, sup, sat, fb = _cf(c)
    inf = (1 << (n - 1)) - 2
    return sat == 1 and sup == 1 and any(_mag(n, x) == inf for x in ints(c['args']))


@pred
def wide_result_truncated(c):
    """wide (> 64-bit significand) path of convert(): truncated instead of rounded (off by <= 2 units in the last
    place), or an overflowing result, or a subnormal operand/result"""
    n, es, sub, sup, sat, fb = _cf(c)
    i, m = ints(c['impl']), ints(c['model'])
    if len(i) != 1 or len(m) != 1:
        return False
    wide = (c['opname'] == 'mul' and fb >= 32) or (c['opname'] == 'div' and fb >= 20)
    if not wide:
        return False
    same_sign = (i[0] >> (n - 1)) == (m[0] >> (n - 1))
    near = same_sign and abs(_mag(n, i[0]) - _mag(n, m[0])) <= 2
    overflow = _mag(n, m[0]) >= ((1 << es) - 1) << fb
    subn = any((_mag(n, x) >> fb) == 0 for x in ints(c['args']) + m)
    return near or overflow or subn


@pred
def u64_blocks_wide_significand(c):
    n, es, sub, sup, sat, fb = _cf(c)
    return cfg_ints(c)[5] == 64 and fb >= 32
