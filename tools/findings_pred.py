"""Named input-class predicates used by KNOWN_FINDINGS.json entries (never written at run time).
Each takes the parsed mismatch dict: fam, cfg (str), op, opname, args (csv hex), impl (csv hex), model (csv hex)."""


def ints(csv):
    return [int(x, 16) for x in csv.split(',') if x not in ('', '-') and not x.startswith('!')]


def cfg_ints(c):
    return [int(x) for x in c['cfg'].split(',')]


PRED = {}


def pred(f):
    PRED[f.__name__] = f
    return f
