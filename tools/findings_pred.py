"""Named input-class predicates used by KNOWN_FINDINGS.json entries (never written at run time).
Each takes the parsed mismatch dict: fam, cfg (str), op, opname, args (csv hex), impl (csv hex), model (csv hex)."""


def ints(csv):
    return [int(x, 16) for x in csv.split(',') if x not in ('', '-') and not x.startswith('!')]


def cfg_ints(c):
    return [int(x) for x in c['cfg'].split(',')]


PRED = {}


def pred(f):
    # a predicate that cannot evaluate a case (an infinity or NaN where it expects a number, a result of another shape) does not
    # recognise it: the case then stays unexplained and is reported, it never takes the run down
    def safe(c):
        try:
            return bool(f(c))
        except Exception:
            return False
    safe.__name__ = f.__name__; safe.__doc__ = f.__doc__
    PRED[f.__name__] = safe
    return safe


@pred
def multi_limb_u64(c):
    """integer<n, uint64_t> with more than one limb"""
    n, bt = cfg_ints(c)[:2]
    return bt == 64 and n > 64


def _lns_scale(n, r, enc):
    """|E| / 2^r of an lns encoding (E = two's complement of the low n-1 bits)"""
    m = enc & ((1 << (n - 1)) - 1)
    if m >= 1 << (n - 2):
        m -= 1 << (n - 1)
    return abs(m) / float(1 << r)


@pred
def lns_addsub_beyond_double(c):
    n, r = cfg_ints(c)[:2]
    a = ints(c['args'])
    if r >= 24:
        return True
    return any(_lns_scale(n, r, x) >= 1000 for x in a)


def _cf(c):
    n, es, sub, sup, sat = cfg_ints(c)[:5]
    return n, es, sub, sup, sat, n - 1 - es


def _mag(n, x):
    return x & ((1 << (n - 1)) - 1)


@pred
def sat_overflow_gives_inf(c):
    n, es, sub, sup, sat, fb = _cf(c)
    i, m = ints(c['impl']), ints(c['model'])
    if len(i) != 1 or len(m) != 1:
        return False
    top = ((1 << es) - 1) * (1 << fb) - 1
    inf = (1 << (n - 1)) - 2
    return sat == 1 and sup == 0 and _mag(n, m[0]) == top and _mag(n, i[0]) == inf and (i[0] >> (n - 1)) == (m[0] >> (n - 1))


@pred
def operand_is_inf_pattern(c):
    n, es, sub, sup, sat, fb = _cf(c)
    inf = (1 << (n - 1)) - 2
    return sat == 1 and sup == 1 and any(_mag(n, x) == inf for x in ints(c['args']))


@pred
def wide_result_truncated(c):
    """wide (> 64-bit significand) path of convert(): truncated instead of rounded (off by <= 2 units in the last
    place), or an overflowing result, or a subnormal operand/result"""
    n, es, sub, sup, sat, fb = _cf(c)
    i, m = ints(c['impl']), ints(c['model'])
    if len(i) != 1 or len(m) != 1:
        return False
    wide = (c['opname'] == 'mul' and fb >= 32) or (c['opname'] == 'div' and fb >= 20)
    if not wide:
        return False
    same_sign = (i[0] >> (n - 1)) == (m[0] >> (n - 1))
    near = same_sign and abs(_mag(n, i[0]) - _mag(n, m[0])) <= 2
    # an overflowing exact result: the model answers inf, or maxpos in a saturating configuration
    overflow = _mag(n, m[0]) >= ((1 << es) - 1) << fb or (sat and _mag(n, m[0]) >= (((1 << es) - 1) << fb) - 1)
    subn = any((_mag(n, x) >> fb) == 0 for x in ints(c['args']) + m)
    return near or overflow or subn


@pred
def u64_blocks_wide_significand(c):
    n, es, sub, sup, sat, fb = _cf(c)
    return cfg_ints(c)[5] == 64 and fb >= 32


import struct, math


def _src_double(c):
    """the native floating source of a from_f32/from_f64 case as a python float"""
    a = ints(c['args'])[0]
    if c['opname'] == 'from_f32':
        return struct.unpack('<f', struct.pack('<I', a & 0xffffffff))[0], (a >> 23) & 0xff, a & 0x7fffff, 23
    return struct.unpack('<d', struct.pack('<Q', a))[0], (a >> 52) & 0x7ff, a & ((1 << 52) - 1), 52


@pred
def areal_nan_source_with_payload(c):
    x, e, f, fb = _src_double(c)
    n = cfg_ints(c)[0]
    i = ints(c['impl'])
    nanpat = (1 << (n - 1)) - 1
    return x != x and len(i) == 1 and (i[0] & nanpat) != nanpat


@pred
def areal_top_binade_source(c):
    x, e, f, fb = _src_double(c)
    n, es = cfg_ints(c)[:2]
    if x != x or math.isinf(x) or x == 0:
        return False
    max_exp = (1 << (es - 1)) + 1
    return math.frexp(abs(x))[1] - 1 == max_exp


@pred
def areal_one_dropped_bit(c):
    """exactly one source fraction bit does not fit: the ubit is not set (impl = model with the ubit cleared)"""
    x, e, f, fb = _src_double(c)
    n, es = cfg_ints(c)[:2]
    i, m = ints(c['impl']), ints(c['model'])
    return (n - 2 - es) == fb - 1 and len(i) == 1 and len(m) == 1 and i[0] + 1 == m[0] and (m[0] & 1) == 1


@pred
def areal_subnormal_native_source(c):
    x, e, f, fb = _src_double(c)
    if not (e == 0 and f != 0):
        return False
    # only where the target can hold the value: a source below the target's minpos must give the open interval next to
    # zero (encoding 1 under the sign), which the library does correctly -- a wrong answer there is not this finding
    n = cfg_ints(c)[0]
    m = ints(c['model'])
    if len(m) == 1 and (m[0] & ((1 << (n - 1)) - 1)) == 1:
        return False
    return True


@pred
def areal_just_above_maxpos(c):
    """maxpos < |x| < 2^MAX_EXP: the truncated fraction is all ones, which is the inf/NaN pattern"""
    n, es = cfg_ints(c)[:2]
    i, m = ints(c['impl']), ints(c['model'])
    if len(i) != 1 or len(m) != 1:
        return False
    allones = (1 << (n - 2)) - 1
    return ((m[0] >> 1) & allones) == allones - 1 and (m[0] & 1) == 1 and ((i[0] >> 1) & allones) == allones


@pred
def areal_wider_than_source_word(c):
    n = cfg_ints(c)[0]
    return (c['opname'] == 'from_f32' and n > 32) or (c['opname'] == 'from_f64' and n > 64)


@pred
def posit_to_int_rounds(c):
    i, m = ints(c['impl']), ints(c['model'])
    if len(i) != 1 or len(m) != 1:
        return False
    w = ints(c['args'])[0]
    d = (i[0] - m[0]) % (1 << w)
    return d in (1, (1 << w) - 1)


@pred
def areal_snan_roundtrip(c):
    n = cfg_ints(c)[0]
    a = ints(c['args'])[0]
    return a == (1 << n) - 1


def _cf_value(c, x):
    """exact value of a finite cfloat encoding as a Fraction (None for inf/nan)"""
    from fractions import Fraction
    n, es, sub, sup, sat, fb = _cf(c)
    m = _mag(n, x); s = x >> (n - 1); e = m >> fb; f = m & ((1 << fb) - 1)
    if e == (1 << es) - 1 and (not sup or m >= (1 << (n - 1)) - 2):
        return None
    bias = (1 << (es - 1)) - 1
    if e == 0:
        v = Fraction(f, 1 << fb) * Fraction(2) ** (1 - bias) if sub else Fraction(0)
    else:
        v = (1 + Fraction(f, 1 << fb)) * Fraction(2) ** (e - bias)
    return -v if s else v


@pred
def cfloat_to_int_via_float(c):
    """int(cfloat) is computed as int(float(x)): wrong when the value needs more than 24 significant bits"""
    n, es, sub, sup, sat, fb = _cf(c)
    w, x = ints(c['args'])[:2]
    v = _cf_value(c, x)
    i = ints(c['impl'])
    if v is None or len(i) != 1 or fb <= 23:
        return False
    try:
        f32 = struct.unpack('<f', struct.pack('<f', float(v)))[0]
    except OverflowError:
        return False
    return (int(f32) % (1 << w)) == i[0]


def _int_src(c):
    w, b = ints(c['args'])[:2]
    if w == 65:
        w = 64
    b &= (1 << w) - 1
    if c['opname'] == 'from_int' and b >= 1 << (w - 1):
        b -= 1 << w
    return b


@pred
def float_source_beyond_int64(c):
    x, e, f, fb = _src_double(c)
    return x == x and abs(x) >= 2.0 ** 63


@pred
def cfloat_int_source_needs_rounding_or_overflows(c):
    n, es, sub, sup, sat, fb = _cf(c)
    z = abs(_int_src(c))
    if z == 0:
        return False
    sig = z.bit_length() - (z & -z).bit_length() + 1          # significant bits
    emax = (1 << es) - 1 - ((1 << (es - 1)) - 1)               # scale of the top binade
    w = ints(c['args'])[0]
    w = 64 if w == 65 else w
    if c['opname'] == 'from_int' and _int_src(c) == -(1 << (w - 1)):
        return True                                              # the most negative value of the source type
    subnormal_target = es == 1 and z < 2                         # 1 is a subnormal of an es = 1 configuration
    return sig > fb + 1 or z.bit_length() - 1 >= emax - (0 if sup else 1) or subnormal_target


@pred
def native_subnormal_source(c):
    x, e, f, fb = _src_double(c)
    return e == 0 and f != 0


@pred
def nan_source_gives_inf(c):
    x, e, f, fb = _src_double(c)
    n = cfg_ints(c)[0]
    i = ints(c['impl'])
    return x != x and len(i) == 1


@pred
def always(c):
    return True


@pred
def posit_operand_is_nar(c):
    n = cfg_ints(c)[0]
    a = ints(c['args'])
    return len(a) >= 1 and a[-1] == 1 << (n - 1)


@pred
def impl_is_zero_or_nar(c):
    n = cfg_ints(c)[0]
    i = ints(c['impl'])
    return len(i) == 1 and i[0] in (0, 1 << (n - 1))


@pred
def off_by_one_encoding(c):
    i, m = ints(c['impl']), ints(c['model'])
    if len(i) != 1 or len(m) != 1:
        return False
    if c['opname'] == 'to_int':
        w = ints(c['args'])[0]
        return (i[0] - m[0]) % (1 << w) in (1, (1 << w) - 1)
    return abs(i[0] - m[0]) == 1


@pred
def fast_posit_int_source(c):
    """fast posit<16,1>/<16,2>/<32,2> integer_assign: truncates instead of rounding (off by one encoding), or
    the source does not fit the 32-bit (32_2) / signed 64-bit path"""
    i, m = ints(c['impl']), ints(c['model'])
    if len(i) != 1 or len(m) != 1:
        return False
    z = abs(_int_src(c)) if c['opname'] == 'from_int' else ints(c['args'])[1]
    return abs(i[0] - m[0]) == 1 or z >= 1 << 31


@pred
def int_source_beyond_int32(c):
    z = abs(_int_src(c)) if c['opname'] == 'from_int' else ints(c['args'])[1]
    return z >= 1 << 31


@pred
def posit_sqrt_via_double(c):
    """result agrees with the correctly rounded root except in the bits a double cannot hold"""
    n = cfg_ints(c)[0]
    i, m = ints(c['impl']), ints(c['model'])
    return len(i) == 1 and len(m) == 1 and abs(i[0] - m[0]) < (1 << max(1, n - 50))


def _ei(c):
    """einteger case: block width, operand signs and magnitudes (hex strings)"""
    w = cfg_ints(c)[0]
    a = c['args'].split(',')
    return w, a


def _limbs(h, w):
    return (len(h.lstrip('0')) * 4 + w - 1) // w if h.strip('0') else 0


@pred
def ei_sub_negative_minuend(c):
    w, a = _ei(c)
    return a[0] == '1' and a[2] == '0'


@pred
def ei_multi_limb_operand(c):
    w, a = _ei(c)
    return _limbs(a[3], w) >= 2 or _limbs(a[1], w) >= 2


@pred
def ei_any_negative(c):
    w, a = _ei(c)
    return a[0] == '1' or (len(a) > 2 and a[2] == '1')


@pred
def ei_negative_or_multi_limb_divisor(c):
    w, a = _ei(c)
    return a[0] == '1' or a[2] == '1'


@pred
def ei_noncanonical_operand(c):
    """an operand produced by an earlier step of a chain with a zero most significant limb"""
    w, a = _ei(c)
    d = w // 4
    return any(len(h) >= d and h[:d].strip('0') == '' and len(h) > d for h in (a[1], a[3] if len(a) > 3 else '1'))


@pred
def prints_negative_zero(c):
    return c['impl'] == '2d,30'


@pred
def erational_negative_zero(c):
    return c['impl'].startswith('31,20,30,20')


@pred
def p2i_adapter_defects(c):
    """convert_p2i: negative posit with scale 0 gives +1; an integer narrower than the posit significand loses the hidden bit"""
    cfg = cfg_ints(c)
    if len(cfg) != 3:
        return False
    n, es, ni = cfg
    fbits = 0 if es + 2 >= n else n - 3 - es
    i, m = ints(c['impl']), ints(c['model'])
    if len(i) != 1 or len(m) != 1:
        return False
    neg_scale0 = i[0] == 1 and m[0] == (1 << ni) - 1
    return neg_scale0 or ni <= fbits + 1      # == : the hidden bit lands in the sign bit of the integer


@pred
def i2p_adapter_out_of_range(c):
    return c['impl'].startswith('!St12out_of_range')


@pred
def three_sum_first_output_faithful_not_rn(c):
    """three_sum: the outputs sum exactly to the inputs' sum but the first output is 1 ulp away from RN(sum) (double rounding)"""
    from fractions import Fraction
    def d(x):
        return Fraction(struct.unpack('<d', struct.pack('<Q', x))[0])
    a = [d(x) for x in ints(c['args'])]
    r = ints(c['impl'])
    if len(a) != 3 or len(r) != 3:
        return False
    rv = [d(x) for x in r]
    # the exact sum is preserved; only the claim 'first output = RN(sum)' fails (1 ulp off through double rounding,
    # arbitrarily far when two of the inputs cancel)
    return sum(rv) == sum(a)


@pred
def qd_readback_is_leading_component(c):
    a = ints(c['args']); i = ints(c['impl'])
    return len(i) == 1 and len(a) >= 4 and i[0] == a[0]


@pred
def qd_component_marginally_over_half_ulp(c):
    """qd result accurate, but a component exceeds half an ulp of its predecessor while staying below one ulp of it"""
    from fractions import Fraction
    def d(x):
        return Fraction(struct.unpack('<d', struct.pack('<Q', x))[0])
    r = [d(x) for x in ints(c['impl'])]
    a = [d(x) for x in ints(c['args'])]
    if len(r) != 4 or len(a) != 8:
        return False
    x, y = sum(a[:4]), sum(a[4:])
    exact = {'add': x + y, 'sub': x - y, 'mul': x * y}.get(c['opname'])
    if exact is None and c['opname'] == 'div' and y != 0:
        exact = x / y
    if c['opname'] == 'sqrt':
        # accurate root: |(sum r)^2 - x| <= 2^-205 x
        if x <= 0 or abs(sum(r) ** 2 - x) * (1 << 205) > abs(x):
            return False
    elif exact is None or abs(sum(r) - exact) * (1 << 212) > 16 * abs(exact):
        return False
    over = False
    for p, q in zip(r, r[1:]):
        if p == 0:
            if q != 0:
                return False
            continue
        ulp = Fraction(2) ** (math.frexp(float(abs(p)))[1] - 1 - 52)
        if abs(q) * 2 > ulp:
            if abs(q) >= ulp:
                return False
            over = True
    return over


# ---- C20: sanitizer reports are identified by the call site the UBSan runtime names (file, not line: lines move with edits)
def _ub_in(c, fname, kind='invalid-shift-exponent'):
    return c['impl'].startswith('!ubsan:' + kind + '@' + fname + ':')


@pred
def ubsan_shift_posit_32_2(c):
    return _ub_in(c, 'posit_32_2.hpp')


@pred
def ubsan_shift_posit_16_2_int_assign(c):
    return _ub_in(c, 'posit_16_2.hpp')


@pred
def ubsan_shift_integer_u64_multi_limb(c):
    return multi_limb_u64(c) and _ub_in(c, 'integer_impl.hpp')


@pred
def watchdog_integer_u64_multi_limb(c):
    return multi_limb_u64(c) and c['impl'].startswith('!SIG14')


@pred
def ubsan_shift_areal_wide_target(c):
    """areal whose fraction field is wider than the source's (fbits > 23 for float, > 52 for double) or whose blocks are as wide as the source word"""
    return _ub_in(c, 'areal_impl.hpp')


@pred
def cfloat_conv_source_is_double_subnormal(c):
    """cfloat -> cfloat: the source value, held in a double on the way, is a subnormal double (source with 11 exponent bits, exponent field 0)"""
    cf = cfg_ints(c)
    n1, e1 = cf[0], cf[1]
    a = ints(c['args'])[0]
    m = a & ((1 << (n1 - 1)) - 1)
    return e1 == 11 and m != 0 and (m >> (n1 - 1 - e1)) == 0


@pred
def pure_posit8_fromd_via_float(c):
    return impl_is_zero_or_nar(c) or off_by_one_encoding(c)


@pred
def lns_nan_source_with_payload(c):
    """float/double NaN source whose payload is not one of the hard-coded patterns; the lns result is not the NaN encoding"""
    x, e, f, fb = _src_double(c)
    n = cfg_ints(c)[0]
    i = ints(c['impl'])
    return x != x and len(i) == 1 and i[0] != (1 << (n - 1)) + (1 << (n - 2))


@pred
def cfloat_add_wide(c):
    """cfloat add/sub whose ADD blocktriple (fbits + 6 bits) exceeds 64 bits: the non-rounding branch of convert()"""
    n, es, sub, sup, sat, fb = _cf(c)
    return fb + 6 > 64


@pred
def fixpnt_assign_not_0b_string(c):
    """fixpnt::assign on a string without the 0b prefix: the decimal branch (marked TBD in the library)"""
    a = c['args'].split(',') if isinstance(c['args'], str) else list(c['args'])
    return not (len(a) >= 2 and a[0] == '30' and a[1] == '62')


@pred
def three_sum_overflows(c):
    """three_sum of three finite operands (each within the property's bound) whose exact sum rounds to an infinity"""
    from fractions import Fraction
    def d(x):
        return struct.unpack('<d', struct.pack('<Q', x))[0]
    a = [d(x) for x in ints(c['args'])]
    r = [d(x) for x in ints(c['impl'])]
    if len(a) != 3 or len(r) != 3 or not all(math.isfinite(x) for x in a):
        return False
    s = sum(Fraction(x) for x in a)
    limit = Fraction(2) ** 1024 - Fraction(2) ** 970        # largest finite double + half an ulp: from here on RN gives an infinity
    return abs(s) >= limit and math.isinf(r[0]) and (r[0] > 0) == (s > 0)
