#!/bin/sh
# usage: tools/sweep.sh <seed> [properties...]   -- quick tier of the given (default: all) checks under another VERIF_SEED;
# summaries go to build/sweep/<seed>.log and the replay files of every run that raised a violation are kept in build/sweep/<seed>/
cd /verif; S=$1; shift
P="$*"; [ -z "$P" ] && P="C01 C02 C03 C04 C05 C06 C07 C08 C09 C10 C11 C12 C13 C14 C15 C16 C17 C18 C19 C20"
mkdir -p build/sweep/$S; : > build/sweep/$S.log
for p in $P; do
  VERIF_SEED=$S timeout 3600 bin/vcheck $p 2>&1 | grep "quick tier\|VIOLATION\|groups of unexplained" >> build/sweep/$S.log
  ls replays/$p-*.json >/dev/null 2>&1 && cp replays/$p-*.json build/sweep/$S/ 2>/dev/null
done
echo done >> build/sweep/$S.log
