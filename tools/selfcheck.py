"""Extraction self-check: the cases of harness/corpus/selfcheck.cases are evaluated twice -- inside Coq (Eval vm_compute of
Judge.judge, i.e. by the kernel's VM on the Gallina term) and by the extracted OCaml judge -- and the complete verdicts
(ok flag, non-trivial flag, model result list) must be identical.  A slip in extraction or in the OCaml glue (hex / decimal
parsing, list order, '!'-results) therefore cannot silently change the oracle."""
import os, re, subprocess, sys
sys.path.insert(0, os.path.dirname(os.path.abspath(__file__)))
import uvlib


def zlit(x):
    return '(%d)' % x


def run(judge):
    corpus = os.path.join(uvlib.ROOT, 'harness/corpus/selfcheck.cases')
    lines = [l.strip() for l in open(corpus) if l[:1].isdigit()]
    terms = []
    for l in lines:
        fam, cfg, op, args, res = l.split(' ')
        cl = [int(x) for x in cfg.split(',')] if cfg not in ('-', '') else []
        al = [int(x, 16) for x in args.split(',')] if args not in ('-', '') else []
        rl = [] if res.startswith('!') or res in ('-', '') else [int(x, 16) for x in res.split(',')]
        if res.startswith('?'):
            rl = None
        if rl is None:
            continue
        terms.append((l, 'enc (judge %s [%s] %s [%s] [%s])' % (zlit(int(fam)), '; '.join(map(zlit, cl)), zlit(int(op)),
                                                              '; '.join(map(zlit, al)), '; '.join(map(zlit, rl)))))
    od = os.path.join(uvlib.BUILD, 'ocaml')
    vfile = os.path.join(od, 'SelfCheck.v')
    with open(vfile, 'w') as f:
        f.write('From Coq Require Import ZArith List.\nFrom UV Require Import Verdict Judge.\nImport ListNotations.\nLocal Open Scope Z_scope.\n'
                'Definition enc (v : verdict) : list Z := (if v_ok v then 1 else 0) :: (if v_nontrivial v then 1 else 0) :: v_model v.\n')
        for i, (_, t) in enumerate(terms):
            f.write('Definition c%d := %s.\n' % (i, t))
        f.write('Eval vm_compute in [%s].\n' % '; '.join('c%d' % i for i in range(len(terms))))
    rc, out = uvlib.sh(['coqc', '-Q', uvlib.COQ, 'UV', vfile], cwd=od, timeout=1800)
    if rc != 0:
        raise RuntimeError('self-check: coqc failed:\n' + out[-2000:])
    flat = re.sub(r'\s+', '', out)
    m = re.search(r'=\[(.*)\]:list\(listZ\)', flat)
    if not m:
        raise RuntimeError('self-check: cannot parse coqc output:\n' + out[:1000])
    coq = []
    for inner in re.findall(r'\[([^\[\]]*)\]', m.group(1)):
        vals = [int(x.replace('%Z', '')) for x in inner.split(';') if x]
        coq.append(vals)
    if len(coq) != len(terms):
        raise RuntimeError('self-check: %d results for %d cases' % (len(coq), len(terms)))
    p = subprocess.run([judge, '--verdicts', '--samples', '0'], input='\n'.join(l for l, _ in terms) + '\n', stdout=subprocess.PIPE, text=True, timeout=600)
    oc = []
    for l in p.stdout.splitlines():
        if l.startswith('V '):
            _, ok, nt, mod = l.split(' ')
            oc.append([int(ok), int(nt)] + ([] if mod == '-' else [int(x, 16) for x in mod.split(',')]))
    if len(oc) != len(terms):
        raise RuntimeError('self-check: extracted judge produced %d verdicts for %d cases' % (len(oc), len(terms)))
    diff = [(terms[i][0], coq[i], oc[i]) for i in range(len(terms)) if coq[i] != oc[i]]
    return {'cases': len(terms), 'differences': diff, 'ok_true': sum(1 for c in coq if c[0] == 1), 'ok_false': sum(1 for c in coq if c[0] == 0)}


if __name__ == '__main__':
    import time
    t0 = time.time()
    r = run(uvlib.ensure_judge())
    print('extraction self-check: %d cases (%d accepted, %d rejected by the model), %d differences, %.1fs' % (r['cases'], r['ok_true'], r['ok_false'], len(r['differences']), time.time() - t0))
    for d in r['differences'][:10]:
        print('  DIFF', d)
    sys.exit(1 if r['differences'] else 0)
