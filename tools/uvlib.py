"""Orchestration for the universal verification checks (see DESIGN.md section 3)."""
import sys, os, json, time, hashlib, subprocess, re, fnmatch, shutil, concurrent.futures as cf

ROOT = os.path.dirname(os.path.dirname(os.path.abspath(__file__)))
REPO = os.environ.get('UV_REPO', '/repo')
BUILD = os.path.join(ROOT, 'build')
COQ = os.path.join(ROOT, 'coq')
NCPU = os.cpu_count() or 8
CXX = ['g++', '-std=c++20', '-O1', '-w', '-I' + os.path.join(REPO, 'include'), '-I' + REPO, '-I' + os.path.join(ROOT, 'harness'),
       '-DUNIVERSAL_VERIF_HOOKS=1']

OPS = {}
for m in re.finditer(r'OP\((\w+),\s*(\d+)\)', open(os.path.join(ROOT, 'harness/ops.def')).read()):
    OPS[int(m.group(2))] = m.group(1)
OPCODE = {v: k for k, v in OPS.items()}
FAMS = {1: 'posit', 2: 'cfloat', 3: 'fixpnt', 4: 'integer', 5: 'lns', 6: 'areal', 7: 'quire', 8: 'dd', 9: 'qd',
        10: 'eft', 11: 'einteger', 12: 'edecimal', 13: 'erational', 14: 'text'}


def log(*a):
    print(*a, file=sys.stderr, flush=True)


def sh(cmd, timeout=None, cwd=None, env=None, stdin=None):
    p = subprocess.run(cmd, cwd=cwd, env=env, input=stdin, stdout=subprocess.PIPE, stderr=subprocess.STDOUT,
                       timeout=timeout, text=True)
    return p.returncode, p.stdout


# ---------------------------------------------------------------- hashing / caching
_tree_hash = None


def repo_tree_hash():
    """hash of every file a driver could include from /repo's working tree"""
    global _tree_hash
    if _tree_hash is None:
        h = hashlib.sha1()
        for top in ('include', 'c_api'):
            base = os.path.join(REPO, top)
            for d, dirs, files in os.walk(base):
                dirs.sort()
                for f in sorted(files):
                    p = os.path.join(d, f)
                    h.update(p.encode())
                    try:
                        with open(p, 'rb') as fh:
                            h.update(hashlib.sha1(fh.read()).digest())
                    except OSError:
                        pass
        _tree_hash = h.hexdigest()
    return _tree_hash


def file_hash(paths):
    h = hashlib.sha1()
    for p in paths:
        h.update(p.encode())
        with open(p, 'rb') as fh:
            h.update(fh.read())
    return h.hexdigest()


# ---------------------------------------------------------------- building
def ensure_judge():
    """extract the Coq model and build the OCaml judge (rebuilt iff the Coq/OCaml sources changed)"""
    od = os.path.join(BUILD, 'ocaml')
    os.makedirs(od, exist_ok=True)
    srcs = sorted(os.path.join(COQ, f) for f in os.listdir(COQ) if f.endswith('.v')) + \
        [os.path.join(ROOT, 'ocaml/judge_main.ml')]
    key = file_hash(srcs)
    stamp = os.path.join(od, 'stamp')
    exe = os.path.join(od, 'uvjudge')
    if os.path.exists(exe) and os.path.exists(stamp) and open(stamp).read() == key:
        return exe
    log('[build] coq library + extraction + judge')
    rc, out = sh(['make', '-C', COQ, '-j%d' % NCPU, 'Judge.vo'], timeout=3000)
    if rc != 0:
        raise RuntimeError('coq build failed:\n' + out[-3000:])
    rc, out = sh(['coqc', '-Q', COQ, 'UV', os.path.join(COQ, 'Extract.v')], cwd=od, timeout=900)
    if rc != 0:
        raise RuntimeError('extraction failed:\n' + out[-3000:])
    shutil.copy(os.path.join(ROOT, 'ocaml/judge_main.ml'), od)
    rc, out = sh(['ocamlfind', 'ocamlopt', '-O3', '-w', '-a', '-o', 'uvjudge', 'model.mli', 'model.ml', 'judge_main.ml'],
                 cwd=od, timeout=900)
    if rc != 0:
        raise RuntimeError('ocaml build failed:\n' + out[-3000:])
    open(stamp, 'w').write(key)
    return exe


def extraction_selfcheck(judge):
    """once per judge build: the corpus evaluated inside Coq (vm_compute) and by the extracted judge must give identical verdicts"""
    import selfcheck
    od = os.path.join(BUILD, 'ocaml')
    res = os.path.join(od, 'selfcheck.json')
    key = open(os.path.join(od, 'stamp')).read() + file_hash([os.path.join(ROOT, 'harness/corpus/selfcheck.cases')])
    if os.path.exists(res):
        d = json.load(open(res))
        if d.get('key') == key:
            return d
    r = selfcheck.run(judge)
    if r['differences']:
        raise RuntimeError('extraction self-check: Coq (vm_compute) and the extracted judge disagree on %d of %d corpus cases, e.g. %r'
                           % (len(r['differences']), r['cases'], r['differences'][0]))
    d = {'key': key, 'cases': r['cases'], 'accepted': r['ok_true'], 'rejected': r['ok_false'], 'differences': 0}
    json.dump(d, open(res, 'w'))
    log('[selfcheck] extraction self-check: %d corpus cases, Coq vm_compute = extracted judge' % r['cases'])
    return d


def build_driver(name, src, flags, compiler=None, extra_srcs=()):
    """compile a driver against /repo's current working tree; cached on (tree hash, source, flags)"""
    dd = os.path.join(BUILD, 'drv')
    os.makedirs(dd, exist_ok=True)
    srcp = os.path.join(ROOT, 'harness', src)
    hd = os.path.join(ROOT, 'harness')
    hs = [srcp] + sorted(os.path.join(hd, f) for f in os.listdir(hd) if f.endswith(('.hpp', '.def', '.h'))) + \
        [os.path.join(ROOT, 'harness', e) for e in extra_srcs if not e.startswith('/')]
    key = hashlib.sha1((repo_tree_hash() + file_hash(hs) + ' '.join(flags) + str(compiler)).encode()).hexdigest()
    exe = os.path.join(dd, name)
    stamp = exe + '.stamp'
    if os.path.exists(exe) and os.path.exists(stamp) and open(stamp).read() == key:
        return exe, None
    cmd = (compiler or CXX) + list(flags) + [srcp] + [e if e.startswith('/') else os.path.join(ROOT, 'harness', e) for e in extra_srcs] + ['-o', exe]
    t0 = time.time()
    rc, out = sh(cmd, timeout=1800)
    if rc != 0:
        if os.path.exists(stamp):
            os.remove(stamp)
        return None, out
    open(stamp, 'w').write(key)
    log('[build] %s (%.1fs)' % (name, time.time() - t0))
    return exe, None


# ---------------------------------------------------------------- running streams
def parse_case(line):
    f = line.split(' ')
    fam, cfg, op, args, res = f[0], f[1], f[2], f[3], f[4]
    return {'fam': int(fam), 'cfg': cfg, 'op': int(op), 'opname': OPS.get(int(op), op), 'args': args, 'impl': res,
            'line': ' '.join(f[:5])}


def run_pipe(driver_cmd, judge, timeout, judge_args=()):
    """driver | judge ; returns dict(summary, mismatches, samples, per, raw_err)"""
    import tempfile
    t0 = time.time()
    errf = tempfile.TemporaryFile(mode='w+b', dir=BUILD)      # a pipe here could fill up and dead-lock the driver
    p1 = subprocess.Popen(driver_cmd, stdout=subprocess.PIPE, stderr=errf)
    p2 = subprocess.Popen([judge] + list(judge_args), stdin=p1.stdout, stdout=subprocess.PIPE, stderr=subprocess.PIPE, text=True)
    p1.stdout.close()
    res = {'mism': [], 'samples': [], 'per': {}, 'summary': None, 'bad': [], 'diag': [], 'crash': None}
    try:
        out, err2 = p2.communicate(timeout=timeout)
        rc1 = p1.wait(timeout=30)
    except subprocess.TimeoutExpired:
        p1.kill(); p2.kill()
        res['crash'] = 'timeout after %ds: %s' % (timeout, ' '.join(driver_cmd))
        return res
    errf.seek(0, 2); sz = errf.tell(); errf.seek(max(0, sz - 3000)); err1 = errf.read().decode(errors='replace'); errf.close()
    for line in out.splitlines():
        if line.startswith('M '):
            body, model = line[2:].rsplit(' => ', 1)
            c = parse_case(body); c['model'] = model
            res['mism'].append(c)
        elif line.startswith('S '):
            res['samples'].append(line[2:])
        elif line.startswith('P '):
            m = re.match(r'P (\S+) (\S+) (\S+) n=(\d+) mismatches=(\d+)', line)
            res['per'][(int(m.group(1)), m.group(2), int(m.group(3)))] = (int(m.group(4)), int(m.group(5)))
        elif line.startswith('SUMMARY'):
            res['summary'] = {k: int(v) for k, v in re.findall(r'(\w+)=(\d+)', line)}
        elif line.startswith('B '):
            res['bad'].append(line[2:])
        elif line.startswith('#'):
            res['diag'].append(line)
    if rc1 != 0:
        res['crash'] = 'driver exit %d: %s\n%s' % (rc1, ' '.join(driver_cmd), err1[-2000:])
    if p2.returncode != 0:
        res['crash'] = (res['crash'] or '') + ' judge exit %d: %s' % (p2.returncode, err2[-1000:])
    res['wall'] = time.time() - t0
    return res


# ---------------------------------------------------------------- known findings
def load_findings():
    p = os.path.join(ROOT, 'KNOWN_FINDINGS.json')
    if not os.path.exists(p):
        return []
    return json.load(open(p))['findings']


def finding_matches(f, prop, c):
    import findings_pred
    if f.get('status', 'open') != 'open' or f['property'] != prop:
        return False
    if 'fam' in f and FAMS.get(c['fam']) != f['fam']:
        return False
    if 'cfg' in f and not any(fnmatch.fnmatch(c['cfg'], g) for g in (f['cfg'] if isinstance(f['cfg'], list) else [f['cfg']])):
        return False
    if 'op' in f and c['opname'] not in f['op']:
        return False
    if 'stream' in f and not fnmatch.fnmatch(c.get('stream') or '', f['stream']):
        return False
    if 'pred' in f:
        return findings_pred.PRED[f['pred']](c)
    return True


# ---------------------------------------------------------------- coq
AUDIT_RX = re.compile(r'\b(Admitted|admit|Axiom|Axioms|Parameter|Parameters|Conjecture|Hypothesis|Variable|Variables|Hypotheses)\b|Unset Guard|bypass_check|type-in-type|impredicative-set|Admit Obligations')


def strip_comments(txt):
    out, depth, i = [], 0, 0
    while i < len(txt):
        if txt.startswith('(*', i):
            depth += 1; i += 2
        elif txt.startswith('*)', i) and depth:
            depth -= 1; i += 2
        else:
            if depth == 0:
                out.append(txt[i])
            i += 1
    return ''.join(out)


def audit_coq():
    """no Admitted/admit/Axiom/Parameter/Conjecture, no Variable/Hypothesis outside a Section, no unchecked flags"""
    bad = []
    for f in sorted(os.listdir(COQ)):
        if not f.endswith('.v'):
            continue
        txt = strip_comments(open(os.path.join(COQ, f)).read())
        depth = 0
        for ln, line in enumerate(txt.splitlines(), 1):
            s = line.strip()
            if re.match(r'Section\b', s):
                depth += 1
            elif re.match(r'End\b', s) and depth:
                depth -= 1
            for m in AUDIT_RX.finditer(line):
                w = m.group(0)
                if w in ('Variable', 'Variables', 'Hypothesis', 'Hypotheses') and depth > 0:
                    continue
                bad.append('%s:%d: %s' % (f, ln, s[:100]))
    cp = open(os.path.join(COQ, '_CoqProject')).read()
    if re.search(r'type-in-type|impredicative-set|-vos|-vok', cp):
        bad.append('_CoqProject: forbidden flag')
    return bad


def prove(prop_file, pregen_changed=False):
    """full .vo build of the property file (always recompiled); returns (ok, theorems, axioms, output, cmd)"""
    vo = os.path.join(COQ, prop_file + '.vo')
    for ext in ('.vo', '.glob', '.vok', '.vos'):
        p = os.path.join(COQ, prop_file + ext)
        if os.path.exists(p):
            os.remove(p)
    cmd = ['make', '-C', COQ, '-k', '-j%d' % NCPU, prop_file + '.vo']
    rc, out = sh(['timeout', '3000'] + cmd, timeout=3100)
    src = strip_comments(open(os.path.join(COQ, prop_file + '.v')).read())
    theorems = re.findall(r'^\s*(?:Theorem|Corollary)\s+(\w+)', src, re.M)
    axioms = set()
    closed = 0
    # Print Assumptions output: either "Closed under the global context" or "Axioms:" + lines "name : type"
    blocks = re.split(r'(?m)^(?=Closed under the global context|Axioms:)', out)
    for b in blocks:
        if b.startswith('Closed under'):
            closed += 1
        elif b.startswith('Axioms:'):
            for line in b.splitlines()[1:]:
                m = re.match(r'^([A-Za-z_]\w*\.[\w.]+)\s*(?::|$)', line)
                if m and not line.startswith(' '):
                    axioms.add(m.group(1))
                elif not line.startswith(' ') and line.strip() and not m:
                    break
    ok = (rc == 0 and os.path.exists(vo))
    return ok, theorems, sorted(axioms), out, ' '.join(cmd)


# ---------------------------------------------------------------- main check
def run_check(prop, tier, seed, only_stream=None):
    import plans
    t0 = time.time()
    plan = plans.PLANS[prop]
    os.makedirs(os.path.join(ROOT, 'evidence'), exist_ok=True)
    os.makedirs(os.path.join(ROOT, 'replays'), exist_ok=True)
    for f in os.listdir(os.path.join(ROOT, 'replays')):
        if f.startswith(prop + '-'):
            os.remove(os.path.join(ROOT, 'replays', f))
    violations = []        # (replay_path, suffix)
    known_hits = {}
    ev_streams = []
    samples = []
    total = dict(n=0, nontrivial=0, distinct_nontrivial=0, mismatches=0)

    # 1. regenerate generated models (tables) from the source
    for g in plan.get('pregen', []):
        rc, out = sh([sys.executable, os.path.join(ROOT, 'tools', g)], timeout=600)
        if rc != 0:
            log(out)
            violations.append((write_replay(prop, {'kind': 'translator', 'what': g, 'output': out[-4000:]}, tier, seed),
                               'no-failing-input-found'))

    # 2. prove
    proof = None
    if plan.get('coq'):
        bad = audit_coq()
        ok, theorems, axioms, out, cmd = prove(plan['coq'])
        proof = dict(ok=ok, theorems=theorems, axioms=axioms, cmd=cmd, audit=bad)
        if bad:
            log('AUDIT: ' + '\n'.join(bad))
        if not ok or bad:
            errs = re.findall(r'(?s)File "[^"]+", line \d+.*?(?=\nmake|\Z)', out)
            proof['error'] = (errs[0] if errs else out[-3000:])[:4000]
            log('[coq] FAILED\n' + proof['error'])

    # 3./4. build + correspond
    judge = ensure_judge()
    sc = extraction_selfcheck(judge)
    findings = load_findings()
    unknown = []
    plans.build_all([d for st in plan.get('streams', []) if tier in st['runs'] and (not only_stream or st['name'] == only_stream) for d in (st['driver'], st.get('driver2')) if d])
    for st in plan.get('streams', []):
        if only_stream and st['name'] != only_stream:
            continue
        if tier not in st['runs']:
            continue
        r = plans.run_stream(st, tier, seed, judge)
        ev_streams.append(r['evidence'])
        samples += r['samples'][:4]
        for k in total:
            total[k] += r['total'].get(k, 0)
        for c in r['mism']:
            c['stream'] = st['name']
            hit = next((f for f in findings if finding_matches(f, prop, c)), None)
            if hit:
                known_hits.setdefault(hit['id'], [hit, 0, c])
                known_hits[hit['id']][1] += 1
            else:
                unknown.append(c)
        for cr in r['crashes']:
            unknown.append({'stream': st['name'], 'crash': cr, 'line': cr.splitlines()[0][:300], 'fam': 0, 'cfg': '', 'op': 0,
                            'opname': 'crash', 'args': '', 'impl': '', 'model': ''})
        # counts of mismatches beyond the printed cap still count
        extra = r['total'].get('mismatches', 0) - len(r['mism'])
        if extra > 0:      # every mismatch has to be seen and classified: an unprinted one is unexplained
            unknown.append({'stream': st['name'], 'crash': 'mismatch count without lines', 'line': '', 'fam': 0, 'cfg': '',
                            'op': 0, 'opname': '?', 'args': '', 'impl': '', 'model': ''})

    for fid, (f, cnt, c) in sorted(known_hits.items()):
        print('KNOWN-FINDING: property=%s %s [%s; %d case(s) this run, e.g. %s]' % (prop, f['what'], fid, cnt, c['line']))

    if unknown:
        # group by (stream, cfg, op); report the smallest case of each of the first few groups
        groups = {}
        for c in unknown:
            groups.setdefault((c['stream'], c['cfg'], c['opname']), []).append(c)
        if len(groups) > 5:
            log('[%s] %d groups of unexplained cases, replay files for the first 5; all groups: %s' % (prop, len(groups), '; '.join('%s %s %s x%d' % (k[0], k[1], k[2], len(v)) for k, v in sorted(groups.items())[:60])))
        for key in sorted(groups, key=lambda k: (len(k[1]), k))[:5]:
            cs = sorted(groups[key], key=lambda c: (len(c['args']), c['args']))
            c = cs[0]
            path = write_replay(prop, {'kind': 'correspondence', 'stream': c['stream'], 'case': c['line'],
                                       'impl': c['impl'], 'model': c['model'], 'crash': c.get('crash'),
                                       'group_size': len(cs), 'other_cases': [x['line'] for x in cs[1:6]]}, tier, seed)
            violations.append((path, ''))
    if proof and (not proof['ok'] or proof['audit']):
        if unknown:
            pass   # the failing input found by the correspondence is the replay
        else:
            path = write_replay(prop, {'kind': 'proof', 'theorem_file': plan['coq'] + '.v', 'error': proof.get('error'),
                                       'audit': proof['audit'],
                                       'note': 'proof obligation no longer checks; correspondence search found no failing input'},
                                tier, seed)
            violations.append((path, 'no-failing-input-found'))

    # 5. evidence
    level = plan['level']
    cov = {
        'evaluations': total['n'], 'distinct_nontrivial': total['distinct_nontrivial'],
        'rule': plan.get('rule', ''), 'samples': samples[:40] or ['(no correspondence cases in this tier)'],
        'streams': ev_streams, 'mismatches_total': total['mismatches'],
        'known_findings_hit': {k: v[1] for k, v in known_hits.items()},
        'exhaustive': bool(ev_streams) and all(s.get('exhaustive') for s in ev_streams),
        'extraction_selfcheck': 'corpus of %d cases (%d accepted, %d rejected by the model) evaluated by Coq vm_compute and by the extracted judge: identical verdicts'
                                % (sc['cases'], sc['accepted'], sc['rejected']),
    }
    if proof:
        cov.update({'obligations': len(proof['theorems']), 'discharged': len(proof['theorems']) if proof['ok'] else 0,
                    'checker_cmd': proof['cmd'] + '  (coqc 8.16.1, full .vo build; audit grep for Admitted/Axiom/...)',
                    'theorems': proof['theorems'],
                    'trusted_base': ['Coq 8.16.1 kernel + VM (vm_compute)', 'OCaml extraction (ExtrOcamlBasic only)',
                                     'ocaml/judge_main.ml glue', 'harness C++ drivers + g++ 12'] +
                    ['axiom: ' + a for a in proof['axioms']]})
    if level == 'translation_validation':
        cov.setdefault('programs', len(ev_streams))
        cov.setdefault('disagreements_checked', total['mismatches'])
    if level == 'other':
        cov['explanation'] = plan.get('explanation', '')
    ev = {'property_id': prop, 'tier': tier, 'seed': seed, 'level': level, 'coverage': cov,
          'assumptions': plan.get('assumptions', []), 'wall_s': round(time.time() - t0, 1),
          'violations': len(violations)}
    json.dump(ev, open(os.path.join(ROOT, 'evidence', prop + '.json'), 'w'), indent=1)
    for path, suffix in violations:
        print(('VIOLATION property=%s replay=%s %s' % (prop, path, suffix)).rstrip())
    log('[%s] %s tier: %d cases, %d mismatches (%d known), %.0fs' % (prop, tier, total['n'], total['mismatches'],
                                                                      sum(v[1] for v in known_hits.values()), time.time() - t0))
    return 1 if violations else 0


def write_replay(prop, body, tier, seed):
    body = dict(body)
    body.update({'property': prop, 'tier': tier, 'seed': seed})
    h = hashlib.sha1(json.dumps(body, sort_keys=True).encode()).hexdigest()[:12]
    path = os.path.join(ROOT, 'replays', '%s-%s.json' % (prop, h))
    body['how_to_replay'] = 'bin/vcheck --replay ' + path
    json.dump(body, open(path, 'w'), indent=1)
    return path


def replay(path):
    import plans
    body = json.load(open(path))
    prop = body['property']
    print(json.dumps(body, indent=1))
    if body.get('kind') != 'correspondence' or not body.get('case'):
        print('replay: re-running the property check')
        return run_check(prop, body.get('tier', 'quick'), body.get('seed', 1))
    plan = plans.PLANS[prop]
    st = next(s for s in plan['streams'] if s['name'] == body['stream'])
    judge = ensure_judge()
    out = plans.replay_case(st, body['case'], judge)
    print(out)
    return 1 if '\nM ' in '\n' + out else 0


def main(argv):
    if argv and argv[0] == '--replay':
        return replay(argv[1])
    prop = argv[0]
    tier = os.environ.get('VERIF_TIER', 'quick')
    only = None
    i = 1
    while i < len(argv):
        if argv[i] == '--tier':
            tier = argv[i + 1]; i += 2
        elif argv[i] == '--stream':
            only = argv[i + 1]; i += 2
        else:
            i += 1
    seed = int(os.environ.get('VERIF_SEED', '1') or 1)
    try:
        return run_check(prop, tier, seed, only)
    except Exception as e:   # a broken harness must not look like a pass
        import traceback
        traceback.print_exc()
        path = write_replay(prop, {'kind': 'harness-error', 'error': str(e)[-3000:]}, tier, seed)
        print('VIOLATION property=%s replay=%s no-failing-input-found' % (prop, path))
        return 1
