#!/usr/bin/env python3
"""Translator: re-extract the lookup tables of the table-driven posit specialisations (and the sqrt root tables)
from /repo's headers and emit coq/Tables.v (data only).  The theorems 'every entry equals the model' live in
Properties_C11.v / Properties_C17.v and are re-checked by coqc on every run.  Fails closed: a table whose element
count does not match its declared bound is an error."""
import re, sys, os
ROOT = os.path.dirname(os.path.dirname(os.path.abspath(__file__)))
REPO = os.environ.get('UV_REPO', '/repo')
SPEC = os.path.join(REPO, 'include/universal/number/posit/specialized')
SQRT = os.path.join(REPO, 'include/universal/number/posit/math/sqrt_tables.hpp')
out = ["(* GENERATED on every run by tools/gen_tables.py from %s -- do not edit *)" % SPEC,
       "From Coq Require Import ZArith List.", "Import ListNotations.", "Local Open Scope Z_scope.", ""]
rx = re.compile(r'constexpr\s+(?:uint8_t|uint16_t|bool|unsigned(?:\s+\w+)?|int)\s+(posit_\d+_\d+_\w+?)\s*\[\s*(\d+)\s*\](?:\s*\[\s*(\d+)\s*\])?\s*=\s*\{(.*?)\}\s*;', re.S)
found = []
files = [os.path.join(SPEC, f) for f in ('posit_2_0.hpp', 'posit_3_0.hpp', 'posit_3_1.hpp', 'posit_4_0.hpp')] + [SQRT]
for path in files:
    if not os.path.exists(path):
        print('missing', path, file=sys.stderr); sys.exit(2)
    txt = re.sub(r'//[^\n]*', '', open(path).read())
    for m in rx.finditer(txt):
        name, n1, n2, body = m.group(1), int(m.group(2)), m.group(3), m.group(4)
        toks = [t for t in re.split(r'[\s,{}]+', body) if t]
        vals = []
        for t in toks:
            if t in ('true', 'false'):
                vals.append(1 if t == 'true' else 0)
            else:
                vals.append(int(t.rstrip('uUlL'), 0))
        bound = n1 * (int(n2) if n2 else 1)
        if len(vals) != bound:
            print('table %s: %d elements, declared %d' % (name, len(vals), bound), file=sys.stderr); sys.exit(2)
        out.append('Definition tbl_%s : list Z := [%s].' % (name, '; '.join(map(str, vals))))
        found.append(name)
out.append('')
out.append('(* tables found: %s *)' % ' '.join(found))
txt = '\n'.join(out) + '\n'
path = os.path.join(ROOT, 'coq/Tables.v')
if not os.path.exists(path) or open(path).read() != txt:
    open(path, 'w').write(txt)
print('tables:', len(found))
