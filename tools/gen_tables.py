#!/usr/bin/env python3
"""Translator: re-extract the lookup tables of the table-driven posit specialisations (and the sqrt root tables)
from /repo's headers and emit coq/Tables.v (data only).  The theorems 'every entry equals the model' live in
Properties_C11.v / Properties_C17.v and are re-checked by coqc on every run.  Fails closed: a table whose element
count does not match its declared bound is an error."""
import re, sys, os
ROOT = os.path.dirname(os.path.dirname(os.path.abspath(__file__)))
REPO = os.environ.get('UV_REPO', '/repo')
SPEC = os.path.join(REPO, 'include/universal/number/posit/specialized')
SQRT = os.path.join(REPO, 'include/universal/number/posit/math/sqrt_tables.hpp')
out = ["(* GENERATED on every run by tools/gen_tables.py from %s -- do not edit *)" % SPEC,
       "From Coq Require Import ZArith List.", "Import ListNotations.", "Local Open Scope Z_scope.", ""]
rx = re.compile(r'constexpr\s+(?:uint8_t|uint16_t|bool|unsigned(?:\s+\w+)?|int)\s+(posit_\d+_\d+_\w+?)\s*\[\s*(\d+)\s*\](?:\s*\[\s*(\d+)\s*\])?\s*=\s*\{(.*?)\}\s*;', re.S)
found = []
files = [os.path.join(SPEC, f) for f in ('posit_2_0.hpp', 'posit_3_0.hpp', 'posit_3_1.hpp', 'posit_4_0.hpp')] + [SQRT]
for path in files:
    if not os.path.exists(path):
        print('missing', path, file=sys.stderr); sys.exit(2)
    txt = re.sub(r'//[^\n]*', '', open(path).read())
    for m in rx.finditer(txt):
        name, n1, n2, body = m.group(1), int(m.group(2)), m.group(3), m.group(4)
        toks = [t for t in re.split(r'[\s,{}]+', body) if t]
        vals = []
        for t in toks:
            if t in ('true', 'false'):
                vals.append(1 if t == 'true' else 0)
            else:
                vals.append(int(t.rstrip('uUlL'), 0))
        bound = n1 * (int(n2) if n2 else 1)
        if len(vals) != bound:
            print('table %s: %d elements, declared %d' % (name, len(vals), bound), file=sys.stderr); sys.exit(2)
        out.append('Definition tbl_%s : list Z := [%s].' % (name, '; '.join(map(str, vals))))
        found.append(name)
out.append('')
out.append('(* tables found: %s *)' % ' '.join(found))
path = os.path.join(ROOT, 'coq/Tables.v')
print('tables:', len(found))

# ---------------------------------------------------------------- constants other models rely on
# (1) subnormal scale tables of include/universal/native/subnormal.hpp (used by cfloat/areal to_native):
#     subnormal_reciprocal_shift[es] (ints) and subnormal_exponent[es] (doubles given as literals / named constant expressions).
#     The double expressions are evaluated exactly (Fraction); an entry that is not an exact power of two is an error.
# (2) the Veltkamp splitter of include/universal/numerics/error_free_ops.hpp (C13 theorems are stated for 2^27 + 1)
from fractions import Fraction
extra = ["", "(* constants re-extracted from native/subnormal.hpp and numerics/error_free_ops.hpp *)"]
sub = re.sub(r'//[^\n]*', '', open(os.path.join(REPO, 'include/universal/native/subnormal.hpp')).read())
names = {}
def ev(expr):
    toks = re.findall(r'[A-Za-z_]\w*|\d+\.?\d*(?:[eE][-+]?\d+)?|[*/()]', expr)
    pos = [0]
    def atom():
        t = toks[pos[0]]; pos[0] += 1
        if t == '(':
            v = term(); pos[0] += 1; return v
        if re.match(r'[A-Za-z_]', t):
            return names[t]
        return Fraction(t)
    def term():
        v = atom()
        while pos[0] < len(toks) and toks[pos[0]] in '*/':
            o = toks[pos[0]]; pos[0] += 1; w = atom(); v = v * w if o == '*' else v / w
        return v
    return term()
for m in re.finditer(r'static\s+constexpr\s+double\s+(\w+)\s*=\s*([^;{]+);', sub):
    names[m.group(1)] = ev(m.group(2))
def log2_exact(q):
    if q <= 0: return None
    n, d = q.numerator, q.denominator
    if n & (n - 1) or d & (d - 1): raise SystemExit('subnormal.hpp: %s is not a power of two' % q)
    return n.bit_length() - 1 - (d.bit_length() - 1)
m = re.search(r'subnormal_reciprocal_shift\[\]\s*=\s*\{(.*?)\}\s*;', sub, re.S)
shifts = [int(t) for t in re.split(r'[\s,]+', m.group(1)) if t]
m = re.search(r'subnormal_exponent\[\]\s*=\s*\{(.*?)\}\s*;', sub, re.S)
exps = [log2_exact(ev(t)) for t in re.split(r'[\s,]+', m.group(1)) if t]
if len(shifts) != 21 or len(exps) != 21:
    raise SystemExit('subnormal.hpp: expected 21 entries, found %d / %d' % (len(shifts), len(exps)))
extra.append('Definition tbl_subnormal_reciprocal_shift : list Z := [%s].' % '; '.join('(%d)' % v for v in shifts))
extra.append('Definition tbl_subnormal_exponent_log2 : list (option Z) := [%s].' % '; '.join('None' if v is None else 'Some (%d)' % v for v in exps))
eft = re.sub(r'//[^\n]*', '', open(os.path.join(REPO, 'include/universal/numerics/error_free_ops.hpp')).read())
mb = re.search(r'constexpr\s+int\s+BITS\s*=\s*(\d+)\s*;', eft); ms = re.search(r'constexpr\s+double\s+SPLITTER\s*=\s*([\d.]+)\s*;', eft)
if not mb or not ms or Fraction(ms.group(1)).denominator != 1:
    raise SystemExit('error_free_ops.hpp: BITS / SPLITTER not found')
extra.append('Definition src_split_bits : Z := %d.' % int(mb.group(1)))
extra.append('Definition src_splitter : Z := %d.' % int(Fraction(ms.group(1))))
txt = '\n'.join(out + extra) + '\n'
if not os.path.exists(path) or open(path).read() != txt:
    open(path, 'w').write(txt)
print('constants: subnormal tables (21 entries each), splitter')
