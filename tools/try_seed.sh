#!/bin/sh
# usage: tools/try_seed.sh <seed dir with patch.diff + demo.cpp> <property> [extra vcheck args]
# applies the seeded change to /repo, shows that the demo fails with it and passes without it, runs the check, reverts.
set -u
S=$1; P=$2; shift 2
cd /verif
git -C /repo status --short | grep -v '^??' && { echo "repo not clean"; exit 2; }
demo() { if [ -f $S/demo.sh ]; then (cd $S && INC=/repo/include sh ./demo.sh); else g++ -std=c++20 -O1 -I/repo/include $S/demo.cpp -o /tmp/seed_demo_bin 2>/dev/null && { /tmp/seed_demo_bin > /tmp/seed_demo_out 2>&1; rc=$?; tail -3 /tmp/seed_demo_out; echo "demo exit=$rc"; }; fi; }
echo "== unmodified"; demo
git -C /repo apply $S/patch.diff || { echo "patch does not apply"; exit 2; }
echo "== with change"; demo
timeout 3000 bin/vcheck $P "$@" 2>&1 | grep -v '^KNOWN-FINDING\|^\[build\]' | tail -12
git -C /repo checkout -- .
rm -f /tmp/seed_demo_bin
git -C /repo status --short | grep -v '^??'
echo "== reverted"
