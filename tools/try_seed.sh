#!/bin/sh
# usage: tools/try_seed.sh <seed dir with patch.diff + demo.cpp|demo.sh> <property> [extra vcheck args]
# Applies the seeded change to a scratch worktree of /repo's HEAD (UV_REPO points the check at it, so /repo itself and any run that is
# using it are not disturbed), shows that the demo fails with it and passes without it, runs the check, removes the worktree.
# (Equivalent to: git -C /repo apply <patch>; bin/vcheck <property>; git -C /repo checkout -- .)
set -u
S=$1; P=$2; shift 2
cd /verif
W=/tmp/seedrepo_$$
git -C /repo worktree add -q --detach $W HEAD || exit 2
demo() { R=$1; if [ -f $S/demo.sh ]; then (cd $S && INC=$R/include sh ./demo.sh > /tmp/seed_demo_out_$$ 2>&1; rc=$?; tail -3 /tmp/seed_demo_out_$$; echo "demo exit=$rc"); else g++ -std=c++20 -O1 -I$R/include $S/demo.cpp -o /tmp/seed_demo_bin_$$ 2>/dev/null && { /tmp/seed_demo_bin_$$ > /tmp/seed_demo_out_$$ 2>&1; rc=$?; tail -3 /tmp/seed_demo_out_$$; echo "demo exit=$rc"; }; fi; }
echo "== unmodified"; demo /repo
git -C $W apply $S/patch.diff || { echo "patch does not apply"; git -C /repo worktree remove --force $W; exit 2; }
echo "== with change"; demo $W
UV_REPO=$W timeout 3000 bin/vcheck $P "$@" 2>&1 | grep -v '^KNOWN-FINDING\|^\[build\]' | tail -12
git -C /repo worktree remove --force $W
rm -f /tmp/seed_demo_bin_$$ /tmp/seed_demo_out_$$
echo "== scratch worktree removed"
