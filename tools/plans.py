"""Per-property plans: which Coq file proves it, which drivers/streams tie it to the code."""
import os, sys, time, concurrent.futures as cf
import uvlib
from uvlib import ROOT, NCPU, log


_built = {}


def build(name):
    if name not in _built:
        d = DRIVERS[name]
        _built[name] = uvlib.build_driver(name, d['src'], d.get('flags', []), d.get('compiler'), d.get('extra_srcs', ()))
    return _built[name]


def build_all(names):
    """compile the drivers a check needs, in parallel"""
    todo = [n for n in dict.fromkeys(names) if n not in _built]
    with cf.ThreadPoolExecutor(max_workers=max(1, min(len(todo), NCPU))) as ex:
        for n, r in zip(todo, ex.map(lambda n: uvlib.build_driver(n, DRIVERS[n]['src'], DRIVERS[n].get('flags', []),
                                                                  DRIVERS[n].get('compiler'), DRIVERS[n].get('extra_srcs', ())), todo)):
            _built[n] = r


def run_stream(st, tier, seed, judge):
    """build the stream's driver(s) from the current tree, run all shards driver|judge in parallel"""
    out = {'mism': [], 'samples': [], 'crashes': [], 'total': {}, 'evidence': {}}
    t0 = time.time()
    exe, err = build(st['driver'])
    if exe is None:
        out['crashes'].append('driver %s does not compile against the current tree:\n%s' % (st['driver'], err[-3000:]))
        out['evidence'] = {'stream': st['name'], 'error': 'compile failed'}
        return out
    jobs = []
    for run in st['runs'][tier]:
        shards = run.get('shards', 1)
        for i in range(shards):
            cmd = [exe] + [a.replace('{seed}', str(seed)) for a in run['args']] + ['--seed', str(seed), '--shard', str(i), str(shards)]
            jobs.append(cmd)
    tot = dict(n=0, nontrivial=0, distinct_nontrivial=0, mismatches=0, bad=0)
    per = {}
    with cf.ThreadPoolExecutor(max_workers=NCPU) as ex:
        for r in ex.map(lambda c: uvlib.run_pipe(c, judge, st.get('timeout', 1500), st.get('judge_args', ())), jobs):
            if r['crash']:
                out['crashes'].append(r['crash'])
            if r['summary']:
                for k in tot:
                    tot[k] += r['summary'].get(k, 0)
            elif not r['crash']:
                out['crashes'].append('judge produced no summary')
            for b in r['bad'][:3]:
                out['crashes'].append('unparseable case line: ' + b)
            out['mism'] += r['mism']
            if len(out['samples']) < 12:
                out['samples'] += r['samples'][:3]
            for k, (c, m) in r['per'].items():
                a = per.get(k, (0, 0)); per[k] = (a[0] + c, a[1] + m)
    if tot['n'] == 0 and not out['crashes']:
        out['crashes'].append('stream %s produced no cases' % st['name'])
    out['total'] = tot
    cfgs = sorted({'%s:%s' % (uvlib.FAMS.get(k[0], k[0]), k[1]) for k in per})
    out['evidence'] = {'stream': st['name'], 'tier_args': [r['args'] for r in st['runs'][tier]], 'cases': tot['n'],
                       'nontrivial': tot['nontrivial'], 'mismatches': tot['mismatches'],
                       'configurations': cfgs, 'ops': sorted({uvlib.OPS.get(k[2], str(k[2])) for k in per}),
                       'exhaustive': bool(st.get('exhaustive', {}).get(tier)), 'what': st.get('what', ''),
                       'wall_s': round(time.time() - t0, 1)}
    return out


def replay_case(st, case_line, judge):
    import subprocess
    exe, err = build(st['driver'])
    if exe is None:
        return 'driver does not compile:\n' + err[-2000:]
    p1 = subprocess.run([exe, '--mode', 'cases'], input=case_line + '\n', stdout=subprocess.PIPE, text=True, timeout=600)
    p2 = subprocess.run([judge, '--samples', '5'], input=p1.stdout, stdout=subprocess.PIPE, text=True, timeout=600)
    return 'driver output:\n' + p1.stdout + 'judge output:\n' + p2.stdout



DRIVERS = {
    'posit_small': {'src': 'drv_posit.cpp', 'flags': ['-DNO_LARGE']},
    'posit_large': {'src': 'drv_posit.cpp', 'flags': ['-DNO_SMALL']},
    'posit_mid': {'src': 'drv_posit.cpp', 'flags': ['-DNO_LARGE', '-DNO_SMALL', '-DWITH_MID']},
    'fixpnt_small': {'src': 'drv_fixpnt.cpp', 'flags': ['-DNO_LARGE']},
    'fixpnt_large': {'src': 'drv_fixpnt.cpp', 'flags': ['-DNO_SMALL']},
    'integer_small': {'src': 'drv_integer.cpp', 'flags': ['-DNO_LARGE']},
    'integer_large': {'src': 'drv_integer.cpp', 'flags': ['-DNO_SMALL']},
    'lns_small': {'src': 'drv_lns.cpp', 'flags': ['-DNO_LARGE']},
    'lns_large': {'src': 'drv_lns.cpp', 'flags': ['-DNO_SMALL']},
    'areal_all': {'src': 'drv_areal.cpp', 'flags': []},
    'quire_all': {'src': 'drv_quire.cpp', 'flags': []},
}
for k in (0, 1, 2, 3, 4, 10, 11, 12, 13):
    DRIVERS['cfloat_s%d' % k] = {'src': 'drv_cfloat.cpp', 'flags': ['-DSET=%d' % k]}
CF_SMALL = ['cfloat_s0', 'cfloat_s1', 'cfloat_s2', 'cfloat_s3']
CF_LARGE = ['cfloat_s10', 'cfloat_s11', 'cfloat_s12', 'cfloat_s13']


def exh(name, driver, group, shards=16, thorough_only=False, what=''):
    runs = {'thorough': [dict(args=['--mode', 'exh', '--group', group], shards=shards)]}
    if not thorough_only:
        runs['quick'] = runs['thorough']
    return {'name': name, 'driver': driver, 'what': what or ('every encoding / operand pair of every small configuration in %s, group %s' % (driver, group)),
            'exhaustive': {'quick': True, 'thorough': True}, 'runs': runs}


def rnd(name, driver, group, quick, thorough, shards=8, what=''):
    return {'name': name, 'driver': driver, 'what': what or ('structured + random operands, large configurations in %s, group %s' % (driver, group)),
            'runs': {'quick': [dict(args=['--mode', 'rnd', '--group', group, '--count', str(quick)], shards=shards)],
                     'thorough': [dict(args=['--mode', 'rnd', '--group', group, '--count', str(thorough)], shards=shards)]}}


NT = ('non-trivial = rounding/clamp/overflow/flush happened or a special operand took part; distinct = distinct case lines among '
      'those (hash set in the judge)')

PLANS = {
    'C01': {
        'level': 'proof', 'coq': 'Properties_C01',
        'rule': 'exhaustive: all encodings/pairs of 26 posit configs <= 8 bits x {add,sub,mul,div,rcp,neg,abs}; sampled: structured '
                'operands (specials, extremes, every regime length x tail class, related pairs) for 23 configs 11..64 bits. ' + NT,
        'assumptions': ['layer-S Coq model compared with the C++ public API; configurations above 8 (quick) / 10 (thorough) bits are sampled'],
        'streams': [exh('posit_arith_exh', 'posit_small', 'arith'),
                    exh('posit_arith_mid', 'posit_mid', 'arith', thorough_only=True),
                    rnd('posit_arith_rnd', 'posit_large', 'arith', 1200, 30000, shards=23)],
    },
    'C02': {
        'level': 'proof', 'coq': 'Properties_C02',
        'rule': 'exhaustive: all operand pairs of every cfloat configuration in sets 0-3 (8-bit es 1..6 and smaller, all sub/sup/sat '
                'combinations) x {add,sub,mul,div,neg}; sampled: field-structured operands for half, bfloat_t, single, duble, quad and '
                'other multi-block configurations. ' + NT,
        'assumptions': ['NaN results are compared as a class; zero sums may carry either sign'],
        'streams': [exh('cfloat_arith_exh%d' % k, 'cfloat_s%d' % k, 'arith') for k in range(4)] +
                   [exh('cfloat_arith_mid', 'cfloat_s4', 'arith', thorough_only=True)] +
                   [rnd('cfloat_arith_rnd%d' % k, 'cfloat_s%d' % k, 'arith', q, t, shards=4) for k, q, t in ((10, 1500, 40000), (11, 1200, 30000), (12, 400, 8000))] +
                   [{'name': 'cfloat_arith_rnd13', 'driver': 'cfloat_s13', 'what': 'fp80 / quad / cfloat<100,15> samples (the exact-rational judge is slow at 15 exponent bits)',
                     'runs': {'thorough': [dict(args=['--mode', 'rnd', '--group', 'arith', '--count', '60'], shards=6)]}}],
    },
    'C07': {
        'level': 'proof', 'coq': 'Properties_C07',
        'rule': 'exhaustive: all pairs of fixpnt<4..8, 0..n, Modulo|Saturate, uint8_t> x {add,sub,mul,div}, all encodings x {neg,++,--}; '
                'sampled: structured operands for 19 configurations 12..64 bits x 3 block types. ' + NT,
        'assumptions': ['division by zero is not judged (C19/C20 cover it)'],
        'streams': [exh('fixpnt_arith_exh', 'fixpnt_small', 'arith'),
                    rnd('fixpnt_arith_rnd', 'fixpnt_large', 'arith', 2000, 50000, shards=16)],
    },
    'C08': {
        'level': 'proof', 'coq': 'Properties_C08',
        'rule': 'exhaustive: all pairs of integer<4..8, u8|u16|u32> x {add,sub,mul,div,rem,and,or,xor}, all encodings x {neg,not} and all '
                'shift counts in [-n-1, n+1]; sampled: structured operands (carry chains, minint, sparse) for 25 configurations 12..256 '
                'bits x block types. ' + NT,
        'assumptions': ['division by zero is not judged (C19/C20 cover it)'],
        'streams': [exh('integer_arith_exh', 'integer_small', 'arith'), exh('integer_logic_exh', 'integer_small', 'logic'),
                    rnd('integer_arith_rnd', 'integer_large', 'arith', 1500, 40000, shards=16),
                    rnd('integer_logic_rnd', 'integer_large', 'logic', 500, 10000, shards=16),
                    exh('integer_intconv_exh', 'integer_small', 'intconv'), rnd('integer_intconv_rnd', 'integer_large', 'intconv', 300, 5000, shards=16)],
    },
    'C09': {
        'level': 'proof', 'coq': 'Properties_C09',
        'rule': 'exhaustive: all pairs of 13 lns configurations <= 8 bits (Saturating and Wrapping) x {mul,div} and x {add,sub} '
                '(acceptance: result must bracket the exact sum, decided with certified rational enclosures of 2^(k/2^r)); sampled for '
                '12 configurations 12..64 bits. ' + NT,
        'assumptions': ['add/sub: the for-all claim is carried by the per-case acceptance predicate, not by a theorem (the implementation goes through double/libm)'],
        'streams': [exh('lns_muldiv_exh', 'lns_small', 'muldiv'), exh('lns_addsub_exh', 'lns_small', 'addsub'),
                    rnd('lns_arith_rnd', 'lns_large', 'arith', 600, 15000, shards=12)],
    },
    'C05': {
        'level': 'proof', 'coq': 'Properties_C05',
        'rule': 'random histories (1..40 steps of += posit, -= posit, += quire_mul(a,b)) for 10 quire configurations; every step prints '
                'the complete state (sign + all qbits) before and after and is judged against the exact integer model, so each history '
                'is validated inductively; each history is replayed permuted and partitioned into 2-4 partial quires that are added; '
                'conversion to posit after random steps; fdp on the same data in two orders. non-trivial = every step; distinct = distinct lines',
        'assumptions': ['steps whose exact result exceeds the quire capacity are outside the property precondition and not judged'],
        'streams': [{'name': 'quire_hist', 'driver': 'quire_all', 'what': 'random quire histories',
                     'runs': {'quick': [dict(args=['--mode', 'rnd', '--count', '150'], shards=10)],
                              'thorough': [dict(args=['--mode', 'rnd', '--count', '4000'], shards=10)]}}],
    },
    'C18': {
        'level': 'proof', 'coq': 'Properties_C18',
        'rule': 'for every encoding of 14 areal configurations <= 12 bits: sources = the exact value, its double neighbours, the midpoint '
                'to the next exact value and its neighbours, quarter points (as double and as float), specials, values beyond maxpos and below '
                'minpos; sampled for 10 configurations 16..48 bits. non-trivial = all; distinct = distinct lines',
        'assumptions': [],
        'streams': [exh('areal_from_exh', 'areal_all', 'from'), rnd('areal_from_rnd', 'areal_all', 'from', 1500, 40000, shards=10)],
    },
    'C03': {
        'level': 'proof', 'coq': 'Properties_C03',
        'rule': 'model-aimed sources per target encoding (exact value, double/float neighbours, midpoints and their neighbours, quarter '
                'points, integers around the value in every width/signedness that holds them) + specials (zeros, infinities, quiet and '
                'signalling NaNs, subnormals, extremes, 2^24/2^53/2^63 boundaries) for every small posit/cfloat/fixpnt/integer '
                'configuration; sampled for the large ones. non-trivial = all; distinct = distinct lines',
        'assumptions': ['lns conversion is judged by an acceptance predicate (nearest or its neighbour in the log domain)'],
        'streams': [exh('posit_from_exh', 'posit_small', 'from'), rnd('posit_from_rnd', 'posit_large', 'from', 400, 8000, shards=23)] +
                   [exh('cfloat_from_exh%d' % k, 'cfloat_s%d' % k, 'from') for k in range(4)] +
                   [rnd('cfloat_from_rnd%d' % k, 'cfloat_s%d' % k, 'from', 400, 8000, shards=4) for k in (10, 11, 12)] +
                   [exh('fixpnt_from_exh', 'fixpnt_small', 'from'), rnd('fixpnt_from_rnd', 'fixpnt_large', 'from', 300, 6000, shards=16),
                    exh('integer_from_exh', 'integer_small', 'from'), rnd('integer_from_rnd', 'integer_large', 'from', 300, 6000, shards=16)],
    },
    'C04': {
        'level': 'proof', 'coq': 'Properties_C04',
        'rule': 'every encoding of every small posit/cfloat/fixpnt/integer/areal configuration: double(x), float(x), T(double(x)), '
                'int/long long (x); sampled for large configurations whose values fit the native type. non-trivial = all; distinct = distinct lines',
        'assumptions': ['NaN results compared as a class'],
        'streams': [exh('posit_to_exh', 'posit_small', 'to'), rnd('posit_to_rnd', 'posit_large', 'to', 600, 10000, shards=23)] +
                   [exh('cfloat_to_exh%d' % k, 'cfloat_s%d' % k, 'to') for k in range(4)] +
                   [rnd('cfloat_to_rnd%d' % k, 'cfloat_s%d' % k, 'to', 600, 10000, shards=4) for k in (10, 11)] +
                   [exh('fixpnt_to_exh', 'fixpnt_small', 'to'), rnd('fixpnt_to_rnd', 'fixpnt_large', 'to', 500, 8000, shards=16),
                    exh('integer_to_exh', 'integer_small', 'to'), exh('areal_to_exh', 'areal_all', 'to')],
    },
    'C06': {
        'level': 'proof', 'coq': 'Properties_C06',
        'rule': 'all ordered pairs of every small posit/cfloat/fixpnt/integer configuration x {==,!=,<,<=,>,>=}; ++/-- on every encoding; '
                'sampled for large configurations. non-trivial = all; distinct = distinct lines',
        'assumptions': [],
        'streams': [exh('posit_cmp_exh', 'posit_small', 'cmp'), rnd('posit_cmp_rnd', 'posit_large', 'cmp', 800, 15000, shards=23)] +
                   [exh('cfloat_cmp_exh%d' % k, 'cfloat_s%d' % k, 'cmp') for k in range(4)] +
                   [rnd('cfloat_cmp_rnd%d' % k, 'cfloat_s%d' % k, 'cmp', 800, 15000, shards=4) for k in (10, 11, 12)] +
                   [exh('fixpnt_cmp_exh', 'fixpnt_small', 'cmp'), rnd('fixpnt_cmp_rnd', 'fixpnt_large', 'cmp', 600, 10000, shards=16),
                    exh('integer_cmp_exh', 'integer_small', 'cmp'), rnd('integer_cmp_rnd', 'integer_large', 'cmp', 600, 10000, shards=16)],
    },
}
