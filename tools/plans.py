"""Per-property plans: which Coq file proves it, which drivers/streams tie it to the code."""
import os, sys, time, concurrent.futures as cf
import uvlib
from uvlib import ROOT, NCPU, log


def run_stream(st, tier, seed, judge):
    """build the stream's driver(s) from the current tree, run all shards driver|judge in parallel"""
    out = {'mism': [], 'samples': [], 'crashes': [], 'total': {}, 'evidence': {}}
    t0 = time.time()
    exe, err = uvlib.build_driver(st['name'], st['src'], st['flags'], st.get('compiler'), st.get('extra_srcs', ()))
    if exe is None:
        out['crashes'].append('driver %s does not compile against the current tree:\n%s' % (st['name'], err[-3000:]))
        out['evidence'] = {'stream': st['name'], 'error': 'compile failed'}
        return out
    jobs = []
    for run in st['runs'][tier]:
        shards = run.get('shards', 1)
        for i in range(shards):
            cmd = [exe] + [a.replace('{seed}', str(seed)) for a in run['args']] + ['--seed', str(seed), '--shard', str(i), str(shards)]
            jobs.append(cmd)
    tot = dict(n=0, nontrivial=0, distinct_nontrivial=0, mismatches=0, bad=0)
    per = {}
    with cf.ThreadPoolExecutor(max_workers=NCPU) as ex:
        for r in ex.map(lambda c: uvlib.run_pipe(c, judge, st.get('timeout', 1500), st.get('judge_args', ())), jobs):
            if r['crash']:
                out['crashes'].append(r['crash'])
            if r['summary']:
                for k in tot:
                    tot[k] += r['summary'].get(k, 0)
            elif not r['crash']:
                out['crashes'].append('judge produced no summary')
            for b in r['bad'][:3]:
                out['crashes'].append('unparseable case line: ' + b)
            out['mism'] += r['mism']
            if len(out['samples']) < 12:
                out['samples'] += r['samples'][:3]
            for k, (c, m) in r['per'].items():
                a = per.get(k, (0, 0)); per[k] = (a[0] + c, a[1] + m)
    if tot['n'] == 0 and not out['crashes']:
        out['crashes'].append('stream %s produced no cases' % st['name'])
    out['total'] = tot
    cfgs = sorted({'%s:%s' % (uvlib.FAMS.get(k[0], k[0]), k[1]) for k in per})
    out['evidence'] = {'stream': st['name'], 'tier_args': [r['args'] for r in st['runs'][tier]], 'cases': tot['n'],
                       'nontrivial': tot['nontrivial'], 'mismatches': tot['mismatches'],
                       'configurations': cfgs, 'ops': sorted({uvlib.OPS.get(k[2], str(k[2])) for k in per}),
                       'exhaustive': bool(st.get('exhaustive', {}).get(tier)), 'what': st.get('what', ''),
                       'wall_s': round(time.time() - t0, 1)}
    return out


def replay_case(st, case_line, judge):
    import subprocess
    exe, err = uvlib.build_driver(st['name'], st['src'], st['flags'], st.get('compiler'), st.get('extra_srcs', ()))
    if exe is None:
        return 'driver does not compile:\n' + err[-2000:]
    p1 = subprocess.run([exe, '--mode', 'cases'], input=case_line + '\n', stdout=subprocess.PIPE, text=True, timeout=600)
    p2 = subprocess.run([judge, '--samples', '5'], input=p1.stdout, stdout=subprocess.PIPE, text=True, timeout=600)
    return 'driver output:\n' + p1.stdout + 'judge output:\n' + p2.stdout


EXH8 = 'every operand pair of every posit<n,es>, n in 2..8, es in 0..5 (26 configurations)'

PLANS = {
    'C01': {
        'level': 'proof', 'coq': 'Properties_C01',
        'rule': 'exhaustive: all encodings/pairs of 26 posit configs <= 8 bits x {add,sub,mul,div,rcp,neg,abs}; '
                'sampled: structured operands (specials, extremes, every regime length x tail class, related pairs) '
                'for 23 configs 11..64 bits. non-trivial = rounding happened, a clamp was taken, or a special operand; '
                'distinct = distinct case lines among those (hash set in the judge)',
        'assumptions': ['layer-S model (Coq) is compared with the C++ public API on the listed inputs; configurations > 10 bits are sampled'],
        'streams': [
            {'name': 'posit_arith_exh', 'src': 'drv_posit.cpp', 'flags': ['-DGRP_ARITH', '-DNO_LARGE'],
             'what': EXH8 + ' x {add,sub,mul,div}; every encoding x {rcp,neg,abs}',
             'exhaustive': {'quick': True, 'thorough': True},
             'runs': {'quick': [dict(args=['--mode', 'exh'], shards=16)], 'thorough': [dict(args=['--mode', 'exh'], shards=16)]}},
            {'name': 'posit_arith_rnd', 'src': 'drv_posit.cpp', 'flags': ['-DGRP_ARITH', '-DNO_SMALL'],
             'what': 'structured + random operands, 23 configurations 11..64 bits',
             'runs': {'quick': [dict(args=['--mode', 'rnd', '--count', '1500'], shards=23)],
                      'thorough': [dict(args=['--mode', 'rnd', '--count', '40000'], shards=23)]}},
        ],
    },
}
