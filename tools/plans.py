"""Per-property plans: which Coq file proves it, which drivers/streams tie it to the code."""
import os, sys, time, concurrent.futures as cf
import uvlib
from uvlib import ROOT, NCPU, log


_built = {}


def build(name):
    if name not in _built:
        d = DRIVERS[name]
        _built[name] = uvlib.build_driver(name, d['src'], d.get('flags', []), d.get('compiler'), d.get('extra_srcs', ()))
    return _built[name]


def build_all(names):
    """compile the drivers a check needs, in parallel"""
    todo = [n for n in dict.fromkeys(names) if n not in _built]
    with cf.ThreadPoolExecutor(max_workers=max(1, min(len(todo), NCPU))) as ex:
        for n, r in zip(todo, ex.map(lambda n: uvlib.build_driver(n, DRIVERS[n]['src'], DRIVERS[n].get('flags', []),
                                                                  DRIVERS[n].get('compiler'), DRIVERS[n].get('extra_srcs', ())), todo)):
            _built[n] = r


def run_stream(st, tier, seed, judge):
    """build the stream's driver(s) from the current tree, run all shards driver|judge in parallel"""
    if st.get('kind') == 'pair':
        return run_pair_stream(st, tier, seed, judge)
    if st.get('kind') == 'selfcheck':
        return run_selfcheck_stream(st, tier, seed, judge)
    out = {'mism': [], 'samples': [], 'crashes': [], 'total': {}, 'evidence': {}}
    t0 = time.time()
    exe, err = build(st['driver'])
    if exe is None:
        out['crashes'].append('driver %s does not compile against the current tree:\n%s' % (st['driver'], err[-3000:]))
        out['evidence'] = {'stream': st['name'], 'error': 'compile failed'}
        return out
    jobs = []
    for run in st['runs'][tier]:
        shards = run.get('shards', 1)
        for i in range(shards):
            cmd = [exe] + [a.replace('{seed}', str(seed)) for a in run['args']] + ['--seed', str(seed), '--shard', str(i), str(shards)]
            jobs.append(cmd)
    tot = dict(n=0, nontrivial=0, distinct_nontrivial=0, mismatches=0, bad=0)
    per = {}
    with cf.ThreadPoolExecutor(max_workers=NCPU) as ex:
        for r in ex.map(lambda c: uvlib.run_pipe(c, judge, st.get('timeout', 5400), st.get('judge_args', ())), jobs):
            if r['crash']:
                out['crashes'].append(r['crash'])
            if r['summary']:
                for k in tot:
                    tot[k] += r['summary'].get(k, 0)
            elif not r['crash']:
                out['crashes'].append('judge produced no summary')
            for b in r['bad'][:3]:
                out['crashes'].append('unparseable case line: ' + b)
            out['mism'] += r['mism']
            if len(out['samples']) < 12:
                out['samples'] += r['samples'][:3]
            for k, (c, m) in r['per'].items():
                a = per.get(k, (0, 0)); per[k] = (a[0] + c, a[1] + m)
    if tot['n'] == 0 and not out['crashes']:
        out['crashes'].append('stream %s produced no cases' % st['name'])
    out['total'] = tot
    cfgs = sorted({'%s:%s' % (uvlib.FAMS.get(k[0], k[0]), k[1]) for k in per})
    out['evidence'] = {'stream': st['name'], 'tier_args': [r['args'] for r in st['runs'][tier]], 'cases': tot['n'],
                       'nontrivial': tot['nontrivial'], 'mismatches': tot['mismatches'],
                       'configurations': cfgs, 'ops': sorted({uvlib.OPS.get(k[2], str(k[2])) for k in per}),
                       'exhaustive': bool(st.get('exhaustive', {}).get(tier)), 'what': st.get('what', ''),
                       'wall_s': round(time.time() - t0, 1)}
    return out


def run_pair_stream(st, tier, seed, judge):
    """relational stream: two builds of the same driver run on the same inputs; outputs are compared line by line
    by st['compare'](ref_fields, alt_fields) -> None | reason.  The reference build's lines are also judged by the model
    when st.get('judge_ref')."""
    import subprocess, tempfile
    out = {'mism': [], 'samples': [], 'crashes': [], 'total': {}, 'evidence': {}}
    t0 = time.time()
    ref, err1 = build(st['driver'])
    alt, err2 = build(st['driver2'])
    if ref is None or alt is None:
        out['crashes'].append('driver does not compile against the current tree:\n%s' % ((err1 or err2) or '')[-3000:])
        out['evidence'] = {'stream': st['name'], 'error': 'compile failed'}
        return out
    jobs = []
    for run in st['runs'][tier]:
        shards = run.get('shards', 1)
        for i in range(shards):
            jobs.append([a.replace('{seed}', str(seed)) for a in run['args']] + ['--seed', str(seed), '--shard', str(i), str(shards)])
    cmpf = st['compare']
    tot = dict(n=0, nontrivial=0, distinct_nontrivial=0, mismatches=0, bad=0)
    cfgs, ops = set(), set()

    def one(args):
        res = {'mism': [], 'n': 0, 'nt': 0, 'samples': [], 'crash': None, 'keys': set(), 'jm': []}
        try:
            with tempfile.TemporaryFile(dir=uvlib.BUILD) as e1, tempfile.TemporaryFile(dir=uvlib.BUILD) as e2:
                p1 = subprocess.run([ref] + args, stdout=subprocess.PIPE, stderr=e1, timeout=st.get('timeout', 5400))
                p2 = subprocess.run([alt] + args, stdout=subprocess.PIPE, stderr=e2, timeout=st.get('timeout', 5400))
        except subprocess.TimeoutExpired:
            res['crash'] = 'timeout: ' + ' '.join(args)
            return res
        if p1.returncode != 0 or p2.returncode != 0:
            res['crash'] = 'driver exit %d / %d: %s' % (p1.returncode, p2.returncode, ' '.join(args))
        l1 = [l for l in p1.stdout.decode(errors='replace').splitlines() if l[:1].isdigit()]
        l2 = [l for l in p2.stdout.decode(errors='replace').splitlines() if l[:1].isdigit()]
        if len(l1) != len(l2):
            res['crash'] = (res['crash'] or '') + ' line counts differ: %d vs %d' % (len(l1), len(l2))
        for a, b in zip(l1, l2):
            fa, fb = a.split(' '), b.split(' ')
            res['n'] += 1
            res['keys'].add((fa[0], fa[1], fa[2]))
            if fa[:4] != fb[:4]:
                res['crash'] = 'case streams out of step: %s | %s' % (a, b)
                break
            why = cmpf(fa, fb)
            if fa[4] != fb[4] or why:
                res['nt'] += 1
            if why:
                c = uvlib.parse_case(b)
                c['model'] = fa[4]; c['why'] = why
                if len(res['mism']) < 2000000:      # no effective cap: every difference is classified
                    res['mism'].append(c)
                else:
                    res['more'] = res.get('more', 0) + 1
            if len(res['samples']) < 2 and res['n'] % 1000 == 1:
                res['samples'].append('%s  ||  %s' % (a, fb[4]))
        if st.get('judge_ref'):
            pj = subprocess.run([judge, '--samples', '0'], input='\n'.join(l1) + '\n', stdout=subprocess.PIPE, text=True, timeout=st.get('timeout', 5400))
            for line in pj.stdout.splitlines():
                if line.startswith('M '):
                    body, model = line[2:].rsplit(' => ', 1)
                    c = uvlib.parse_case(body); c['model'] = model; c['why'] = 'reference build disagrees with the model'
                    res['jm'].append(c)
        return res

    with cf.ThreadPoolExecutor(max_workers=max(1, NCPU // 2)) as ex:
        for r in ex.map(one, jobs):
            if r['crash']:
                out['crashes'].append(r['crash'])
            tot['n'] += r['n']; tot['nontrivial'] += r['nt']; tot['distinct_nontrivial'] += r['nt']
            tot['mismatches'] += len(r['mism']) + r.get('more', 0) + len(r['jm'])
            out['mism'] += r['mism'] + r['jm']
            out['samples'] += r['samples'][:1]
            for k in r['keys']:
                cfgs.add('%s:%s' % (uvlib.FAMS.get(int(k[0]), k[0]), k[1])); ops.add(uvlib.OPS.get(int(k[2]), k[2]))
    if tot['n'] == 0 and not out['crashes']:
        out['crashes'].append('stream %s produced no cases' % st['name'])
    out['total'] = tot
    out['evidence'] = {'stream': st['name'], 'kind': 'pair', 'builds': [st['driver'], st['driver2']], 'cases': tot['n'],
                       'differing_or_interesting': tot['nontrivial'], 'mismatches': tot['mismatches'],
                       'configurations': sorted(cfgs), 'ops': sorted(ops), 'exhaustive': bool(st.get('exhaustive', {}).get(tier)),
                       'what': st.get('what', ''), 'wall_s': round(time.time() - t0, 1)}
    return out


def run_selfcheck_stream(st, tier, seed, judge):
    """the driver compares instantiations itself (C12): a result field starting with '!btdiff' is a disagreement"""
    import subprocess, tempfile
    out = {'mism': [], 'samples': [], 'crashes': [], 'total': {}, 'evidence': {}}
    t0 = time.time()
    exe, err = build(st['driver'])
    if exe is None:
        out['crashes'].append('driver %s does not compile against the current tree:\n%s' % (st['driver'], err[-3000:]))
        out['evidence'] = {'stream': st['name'], 'error': 'compile failed'}
        return out
    jobs = []
    for run in st['runs'][tier]:
        for i in range(run.get('shards', 1)):
            jobs.append([exe] + run['args'] + ['--seed', str(seed), '--shard', str(i), str(run.get('of', run.get('shards', 1)))])
    tot = dict(n=0, nontrivial=0, distinct_nontrivial=0, mismatches=0, bad=0)
    keys = set()

    def one(cmd):
        r = {'n': 0, 'mism': [], 'crash': None, 'keys': set(), 'seen': set(), 'samples': []}
        try:
            with tempfile.TemporaryFile(dir=uvlib.BUILD) as e1:
                env = dict(os.environ, ASAN_OPTIONS='detect_leaks=0:handle_segv=0:handle_sigfpe=0:handle_abort=0', UBSAN_OPTIONS='print_stacktrace=0:halt_on_error=0',
                           TSAN_OPTIONS='halt_on_error=0')
                p = subprocess.run(cmd, stdout=subprocess.PIPE, stderr=e1, timeout=st.get('timeout', 5400), env=env)
                if st.get('stderr_rx'):
                    import re
                    e1.seek(0); err = e1.read().decode(errors='replace')
                    hits = [l for l in err.splitlines() if re.search(st['stderr_rx'], l)]
                    if 'UBSAN-CASE 1' in err or 'UBSAN-CASE 2' in err or 'UBSAN-CASE 3' in err or 'UBSAN-CASE 4' in err or 'UBSAN-CASE 5' in err or 'UBSAN-CASE 6' in err:
                        hits = [h for h in hits if 'runtime error' not in h]      # attributed to a case line ('!ubsan:' result)
                    r['stderr_reports'] = [l for l in err.splitlines() if 'runtime error' in l or 'SUMMARY' in l or '-CASE' in l][:40]
                    uniq = sorted(set(re.sub(r'0x[0-9a-f]+|\d+', 'N', h)[:200] for h in hits))
                    for h in uniq[:20]:
                        r['mism'].append({'fam': 0, 'cfg': '', 'op': 0, 'opname': 'sanitizer', 'args': '', 'impl': h, 'line': h + '   [' + ' '.join(cmd[-6:]) + ']', 'model': 'no sanitizer report'})
        except subprocess.TimeoutExpired:
            r['crash'] = 'timeout: ' + ' '.join(cmd); return r
        if p.returncode != 0:
            r['crash'] = 'driver exit %d: %s' % (p.returncode, ' '.join(cmd))
        for line in p.stdout.decode(errors='replace').splitlines():
            if line.startswith('THREADS '):
                r['n'] += 1; r['seen'].add(hash(line))
                if 'MISMATCH' in line:
                    r['mism'].append({'fam': 0, 'cfg': '', 'op': 0, 'opname': 'threads', 'args': '', 'impl': line, 'line': line, 'model': 'sequential result'})
                elif len(r['samples']) < 2:
                    r['samples'].append(line)
                continue
            if not line[:1].isdigit():
                continue
            f = line.split(' ')
            if len(f) < 5:
                continue
            r['n'] += 1
            r['keys'].add((f[0], f[1], f[2]))
            r['seen'].add(hash(line))
            if any(f[4].startswith(b) for b in st.get('bad', ('!btdiff', '!SIG'))):
                c = uvlib.parse_case(line); c['model'] = st.get('expect', 'all block types must agree')
                r['mism'].append(c)
            elif r['n'] % 5000 == 1:
                r['samples'].append(line)
        return r

    with cf.ThreadPoolExecutor(max_workers=NCPU) as ex:
        for r in ex.map(one, jobs):
            if r['crash']:
                out['crashes'].append(r['crash'])
            tot['n'] += r['n']; tot['nontrivial'] += len(r['seen']); tot['distinct_nontrivial'] += len(r['seen'])
            tot['mismatches'] += len(r['mism']); out['mism'] += r['mism']; keys |= r['keys']; out['samples'] += r['samples'][:1]
    if tot['n'] == 0 and not out['crashes']:
        out['crashes'].append('stream %s produced no cases' % st['name'])
    out['total'] = tot
    out['evidence'] = {'stream': st['name'], 'kind': 'selfcheck', 'cases': tot['n'], 'mismatches': tot['mismatches'],
                       'configurations': sorted('%s:%s' % (uvlib.FAMS.get(int(k[0]), k[0]), k[1]) for k in {(a, b) for a, b, _ in keys}),
                       'ops': sorted({uvlib.OPS.get(int(k[2]), k[2]) for k in keys}), 'exhaustive': False, 'what': st.get('what', ''),
                       'wall_s': round(time.time() - t0, 1)}
    return out


def replay_case(st, case_line, judge):
    import subprocess
    exe, err = build(st['driver'])
    if exe is None:
        return 'driver does not compile:\n' + err[-2000:]
    p1 = subprocess.run([exe, '--mode', 'cases'], input=case_line + '\n', stdout=subprocess.PIPE, text=True, timeout=600)
    p2 = subprocess.run([judge, '--samples', '5'], input=p1.stdout, stdout=subprocess.PIPE, text=True, timeout=600)
    return 'driver output:\n' + p1.stdout + 'judge output:\n' + p2.stdout



DRIVERS = {
    'dd_all': {'src': 'drv_dd.cpp', 'flags': []},
    'dd_o2': {'src': 'drv_dd.cpp', 'flags': ['-O2', '-ffp-contract=off']},
    'eft_all': {'src': 'drv_eft.cpp', 'flags': []},
    'eft_o2': {'src': 'drv_eft.cpp', 'flags': ['-O2', '-ffp-contract=off']},
    'convcfg_p0': {'src': 'drv_convcfg.cpp', 'flags': ['-DPART=0']},
    'convcfg_p1': {'src': 'drv_convcfg.cpp', 'flags': ['-DPART=1']},
    'convcfg_p2': {'src': 'drv_convcfg.cpp', 'flags': ['-DPART=2']},
    'elastic_all': {'src': 'drv_elastic.cpp', 'flags': []},
    'elastic_all_thr': {'src': 'drv_elastic.cpp', 'flags': ['-DTHROWING=1']},
    'text_all': {'src': 'drv_text.cpp', 'flags': []},
    'blocks_p0': {'src': 'drv_blocks.cpp', 'flags': ['-DPART=0']},
    'blocks_p1': {'src': 'drv_blocks.cpp', 'flags': ['-DPART=1']},
    'blocks_p2': {'src': 'drv_blocks.cpp', 'flags': ['-DPART=2']},
    'blocks_p3': {'src': 'drv_blocks.cpp', 'flags': ['-DPART=3']},
    'posit_small_thr': {'src': 'drv_posit.cpp', 'flags': ['-DNO_LARGE', '-DTHROWING=1']},
    'posit_large_thr': {'src': 'drv_posit.cpp', 'flags': ['-DNO_SMALL', '-DTHROWING=1']},
    'fixpnt_small_thr': {'src': 'drv_fixpnt.cpp', 'flags': ['-DNO_LARGE', '-DTHROWING=1']},
    'integer_small_thr': {'src': 'drv_integer.cpp', 'flags': ['-DNO_LARGE', '-DTHROWING=1']},
    'integer_large_thr': {'src': 'drv_integer.cpp', 'flags': ['-DNO_SMALL', '-DTHROWING=1']},
    'lns_small_thr': {'src': 'drv_lns.cpp', 'flags': ['-DNO_LARGE', '-DTHROWING=1']},
    'posit_fastset_generic': {'src': 'drv_posit.cpp', 'flags': ['-DFASTSET']},
    'posit_fastset_fast': {'src': 'drv_posit.cpp', 'flags': ['-DFASTSET', '-DFAST=1']},
    'posit_small': {'src': 'drv_posit.cpp', 'flags': ['-DNO_LARGE']},
    'posit_large': {'src': 'drv_posit.cpp', 'flags': ['-DNO_SMALL']},
    'posit_mid': {'src': 'drv_posit.cpp', 'flags': ['-DNO_LARGE', '-DNO_SMALL', '-DWITH_MID']},
    'fixpnt_small': {'src': 'drv_fixpnt.cpp', 'flags': ['-DNO_LARGE']},
    'fixpnt_large': {'src': 'drv_fixpnt.cpp', 'flags': ['-DNO_SMALL']},
    'integer_small': {'src': 'drv_integer.cpp', 'flags': ['-DNO_LARGE']},
    'integer_large': {'src': 'drv_integer.cpp', 'flags': ['-DNO_SMALL']},
    'lns_small': {'src': 'drv_lns.cpp', 'flags': ['-DNO_LARGE']},
    'lns_large': {'src': 'drv_lns.cpp', 'flags': ['-DNO_SMALL']},
    'areal_all': {'src': 'drv_areal.cpp', 'flags': []},
    'quire_all': {'src': 'drv_quire.cpp', 'flags': []},
}
for k in (0, 1, 2, 3, 4, 10, 11, 12, 13):
    DRIVERS['cfloat_s%d' % k] = {'src': 'drv_cfloat.cpp', 'flags': ['-DSET=%d' % k]}
    DRIVERS['cfloat_s%d_thr' % k] = {'src': 'drv_cfloat.cpp', 'flags': ['-DSET=%d' % k, '-DTHROWING=1']}
# C20: the same drivers instrumented with AddressSanitizer + UndefinedBehaviorSanitizer (reports attributed to the case, see
# SAN_TRACE in drvkit.hpp) and with the complete-object canonical-form check; one ThreadSanitizer build
SAN = ['-fsanitize=address,undefined', '-fno-omit-frame-pointer', '-g1', '-DSAN_TRACE', '-DCHECK_CANONICAL']
for _k in ('posit_small', 'posit_large', 'posit_fastset_fast', 'fixpnt_small', 'fixpnt_large', 'integer_small', 'integer_large',
           'lns_small', 'lns_large', 'areal_all', 'quire_all', 'text_all', 'elastic_all', 'convcfg_p0', 'cfloat_s0', 'cfloat_s2', 'cfloat_s10',
           'cfloat_s11', 'dd_all'):
    DRIVERS[_k + '_san'] = {'src': DRIVERS[_k]['src'], 'flags': DRIVERS[_k].get('flags', []) + SAN}
DRIVERS['capi_gen1'] = {'src': 'drv_capi.cpp', 'flags': ['-DCAPI_GENERIC=1']}
DRIVERS['capi_gen2'] = {'src': 'drv_capi.cpp', 'flags': ['-DCAPI_GENERIC=2']}
DRIVERS['capi_pure'] = {'src': 'drv_capi.cpp', 'flags': ['-DCAPI_PURE']}
DRIVERS['capi_shim'] = {'src': 'drv_capi.cpp', 'flags': ['-DCAPI_SHIM']}
DRIVERS['threads_tsan'] = {'src': 'drv_threads.cpp', 'flags': ['-fsanitize=thread', '-g1']}
DRIVERS['programs_san'] = {'src': 'drv_threads.cpp', 'flags': SAN}
CF_SMALL = ['cfloat_s0', 'cfloat_s1', 'cfloat_s2', 'cfloat_s3']
CF_LARGE = ['cfloat_s10', 'cfloat_s11', 'cfloat_s12', 'cfloat_s13']


def exh(name, driver, group, shards=16, thorough_only=False, what=''):
    runs = {'thorough': [dict(args=['--mode', 'exh', '--group', group], shards=shards)]}
    if not thorough_only:
        runs['quick'] = runs['thorough']
    return {'name': name, 'driver': driver, 'what': what or ('every encoding / operand pair of every small configuration in %s, group %s' % (driver, group)),
            'exhaustive': {'quick': True, 'thorough': True}, 'runs': runs}


def rnd(name, driver, group, quick, thorough, shards=8, what=''):
    return {'name': name, 'driver': driver, 'what': what or ('structured + random operands, large configurations in %s, group %s' % (driver, group)),
            'runs': {'quick': [dict(args=['--mode', 'rnd', '--group', group, '--count', str(quick)], shards=shards)],
                     'thorough': [dict(args=['--mode', 'rnd', '--group', group, '--count', str(thorough)], shards=shards)]}}


NT = ('non-trivial = rounding/clamp/overflow/flush happened or a special operand took part; distinct = distinct case lines among '
      'those (hash set in the judge)')

def cmp_same(fa, fb):
    """builds must agree bit for bit; an operation one build does not offer (missing overload) is not a difference"""
    if fa[4].startswith('?') or fb[4].startswith('?'):
        return None
    return None if fa[4] == fb[4] else 'builds differ'


def _expected_throw(fam, cfg, op, args):
    """C19: the operands for which the throwing build must throw (True), must not (False), or is not judged (None);
    with the keywords the exception type name must contain"""
    a = [int(x, 16) for x in args.split(',') if x and x != '-']
    c = [int(x) for x in cfg.split(',')]
    opn = uvlib.OPS.get(op)
    if fam == 1:
        n = c[0]; nar = 1 << (n - 1)
        if opn in ('add', 'sub', 'mul'):
            return (True, ('operand_is_nar',)) if nar in a[:2] else (False, ())
        if opn == 'div':
            if a[1] == 0:
                return True, ('divide_by_zero',)
            if a[1] == nar:
                return True, ('divide_by_nar',)
            if a[0] == nar:
                return True, ('numerator_is_nar', 'operand_is_nar')
            return False, ()
        return False, ()
    if fam == 2 and len(c) > 5 and c[5] == 0:
        return None, ()      # native float / double run by the same driver (C02): no exception mode, both builds identical
    if fam == 2:
        n, es, sub, sup, sat = c[:5]; fb = n - 1 - es
        def cls(x):
            m = x & ((1 << (n - 1)) - 1); s = x >> (n - 1); e = m >> fb
            if m == (1 << (n - 1)) - 2 and not (sup and sat):
                return 'inf'
            if m == (1 << (n - 1)) - 1 or (e == (1 << es) - 1 and not sup and m != (1 << (n - 1)) - 2):
                return 'snan' if s else 'qnan'
            if m == 0 or (e == 0 and not sub):
                return 'zero'
            return 'fin'
        ka, kb = cls(a[0]), (cls(a[1]) if len(a) > 1 else 'fin')
        if opn in ('add', 'sub', 'mul'):
            return (True, ('operand_is_nan',)) if 'snan' in (ka, kb) else (False, ())
        if opn == 'div':
            if kb == 'zero':
                return True, ('divide_by_zero',)
            if kb in ('snan', 'qnan'):
                return True, ('divide_by_nan', 'operand_is_nan')
            if ka == 'snan':
                return True, ('operand_is_nan',)
            if ka == 'qnan':
                return None, ()
            return False, ()
        return False, ()
    if fam == 3:
        return ((True, ('divide_by_zero',)) if opn == 'div' and a[1] == 0 else (False, ()))
    if fam == 4:
        return ((True, ('divide_by_zero',)) if opn in ('div', 'rem') and a[1] == 0 else (False, ()))
    if fam in (11, 12, 13):
        # elastic types: args of einteger are 'sa,maga,sb,magb' (hex); edecimal / erational carry the operand strings as bytes
        if opn not in ('div', 'rem'):
            return False, ()
        f = args.split(',')
        if fam == 11:
            bzero = f[3].strip('0') == ''
        else:
            words = bytes(int(x, 16) for x in f).decode().split(' ')
            bzero = (words[1] if fam == 12 else words[2]).lstrip('-').strip('0') == ''
        return (True, ('divide_by_zero',)) if bzero else (False, ())
    if fam == 5:
        n = c[0]
        if opn == 'div' and a[1] == 1 << (n - 2):
            # a NaN dividend propagates before the divisor is looked at: not judged
            return (None, ()) if a[0] == (1 << (n - 1)) + (1 << (n - 2)) else (True, ('divide_by_zero',))
        return False, ()
    return None, ()


def cmp_throw(fa, fb):
    """fa: quiet build, fb: throwing build"""
    fam, cfg, op, args = int(fa[0]), fa[1], int(fa[2]), fa[3]
    q, t = fa[4], fb[4]
    exp, kw = _expected_throw(fam, cfg, op, args)
    if t.startswith('!SIG') or q.startswith('!SIG'):
        return 'signal/crash: quiet=%s throwing=%s' % (q, t)
    if q.startswith('!'):
        return 'the quiet build threw: ' + q
    if t.startswith('!'):
        if exp is False:
            return 'exception %s thrown for operands that signal no error condition (quiet result %s)' % (t, q)
        if exp is True and not any(k in t for k in kw):
            return 'exception %s is not the documented type (expected one of %s)' % (t, ','.join(kw))
        return None
    if exp is True:
        return 'no exception thrown although the operands signal an error condition (quiet and throwing result %s)' % t
    return None if q == t else 'result differs between quiet (%s) and throwing (%s) build' % (q, t)


def pair(name, d1, d2, args_q, args_t, compare, shards=16, what='', exhaustive=False, judge_ref=False):
    return {'name': name, 'kind': 'pair', 'driver': d1, 'driver2': d2, 'compare': compare, 'judge_ref': judge_ref, 'what': what,
            'exhaustive': {'quick': exhaustive, 'thorough': exhaustive},
            'runs': {'quick': [dict(args=args_q, shards=shards)], 'thorough': [dict(args=args_t, shards=shards)]}}


SAN_BAD = ('!ubsan', '!stale', '!SIG')
SAN_RX = r'runtime error|AddressSanitizer|ThreadSanitizer|LeakSanitizer|Assertion'


def san(name, driver, group, mode, q, t, shards=16, of_quick=None, what=''):
    """C20: a sanitizer-instrumented driver; a case whose result is '!ubsan:..' (UBSan report raised while it ran), '!stale:..'
    (bits set outside the type's width) or '!SIG<n>' (crash / non-termination) is a violation, so is any sanitizer text on stderr
    and a non-zero exit status (ASan aborts)"""
    a = lambda c: ['--mode', mode] + (['--group', group] if group else []) + (['--count', str(c)] if mode != 'exh' else [])
    rq = dict(args=a(q), shards=shards)
    if of_quick:
        rq['of'] = of_quick
    return {'name': name, 'kind': 'selfcheck', 'driver': driver, 'bad': SAN_BAD, 'stderr_rx': SAN_RX, 'timeout': 3000,
            'expect': 'a well-formed result and no sanitizer report',
            'what': what or ('%s %s/%s under ASan+UBSan with the canonical-form check' % (driver, mode, group)),
            'runs': {'quick': [rq], 'thorough': [dict(args=a(t), shards=shards)]}}


def blk(name, part, group, q, t, mode='rnd'):
    a = lambda c: ['--mode', mode, '--group', group] + (['--count', str(c)] if mode == 'rnd' else [])
    return {'name': name, 'kind': 'selfcheck', 'driver': 'blocks_p%d' % part, 'what': 'every operation executed for each BlockType; raw results must be identical',
            'runs': {'quick': [dict(args=a(q), shards=8)], 'thorough': [dict(args=a(t), shards=16)]}}


PLANS = {
    'C20': {
        'level': 'other', 'coq': 'Properties_C20',
        'explanation': 'Partial by nature. Proved in Coq for every width and operand: each modelled operation is total and returns a well-formed encoding '
                       '(Properties_C20.v, obligations/discharged below). Observed by instrumentation on the inputs run, not proved: absence of undefined '
                       'behaviour, memory errors, non-termination (UBSan/ASan builds of the correspondence drivers with per-case attribution, 2 s watchdog), '
                       'absence of bits outside the width in the stored object (byte-for-byte canonical re-encoding check), absence of data races and '
                       'equality with sequential results (TSan build, 8-10 threads). evaluations = driver cases + program digests; distinct_nontrivial = '
                       'distinct case lines',
        'rule': 'the correspondence drivers of C01..C19 rebuilt with AddressSanitizer + UndefinedBehaviorSanitizer: every encoding / operand pair of the small '
                'posit, fast-posit, cfloat, fixpnt, integer and lns configurations (a quarter of the pairs in the quick tier, all in the thorough tier) and structured '
                'samples of the large ones, through arithmetic, comparisons, ++/--, native conversions (all integer widths incl. the most negative values, NaNs, '
                'infinities, subnormals), sqrt, shifts by -nbits-1..nbits+1, text IO, quire histories, elastic types, cross-configuration conversions, dd/qd; a UBSan '
                'report is attributed to the case that raised it; each result object is compared byte for byte with its canonical re-encoding (no stale bits); '
                'a 2 s watchdog catches non-termination. Random straight-line programs (results feeding the next operation, text IO mixed in) for ten type '
                'families under ASan+UBSan, and the same programs on 8..10 concurrent threads under ThreadSanitizer, digests compared with sequential execution',
        'assumptions': ['memory errors, undefined behaviour and data races are properties of the compiled program, not of the Gallina model: they are observed by '
                        'instrumentation on the inputs run (not proved for all inputs); the theorems cover totality and well-formedness of the modelled operations'],
        'streams': [san('san_posit_arith', 'posit_small_san', 'arith', 'exh', 0, 0, of_quick=64), san('san_posit_cmp', 'posit_small_san', 'cmp', 'exh', 0, 0, of_quick=64),
                    san('san_posit_conv', 'posit_small_san', 'conv', 'exh', 0, 0), san('san_posit_sqrt', 'posit_small_san', 'sqrt', 'exh', 0, 0, shards=4),
                    san('san_posit_large_arith', 'posit_large_san', 'arith', 'rnd', 300, 6000, shards=23), san('san_posit_large_cmp', 'posit_large_san', 'cmp', 'rnd', 200, 4000, shards=23),
                    san('san_posit_large_conv', 'posit_large_san', 'conv', 'rnd', 60, 1500, shards=23), san('san_posit_large_sqrt', 'posit_large_san', 'sqrt', 'rnd', 200, 4000, shards=23),
                    san('san_fast_arith', 'posit_fastset_fast_san', 'arith', 'exh', 0, 0, of_quick=64), san('san_fast_cmp', 'posit_fastset_fast_san', 'cmp', 'exh', 0, 0, of_quick=64),
                    san('san_fast_conv', 'posit_fastset_fast_san', 'conv', 'exh', 0, 0), san('san_fast_sqrt', 'posit_fastset_fast_san', 'sqrt', 'exh', 0, 0, shards=4),
                    san('san_fast_large_arith', 'posit_fastset_fast_san', 'arith', 'rnd', 3000, 60000), san('san_fast_large_conv', 'posit_fastset_fast_san', 'conv', 'rnd', 200, 4000),
                    san('san_fast_large_cmp', 'posit_fastset_fast_san', 'cmp', 'rnd', 1000, 20000), san('san_fast_large_sqrt', 'posit_fastset_fast_san', 'sqrt', 'rnd', 1000, 20000)] +
                   [san('san_cfloat%d_%s' % (k, g), 'cfloat_s%d_san' % k, g, 'exh', 0, 0, of_quick=(64 if g in ('arith', 'cmp') else None)) for k in (0, 2) for g in ('arith', 'cmp', 'conv', 'sqrt')] +
                   [san('san_cfloat%d_%s' % (k, g), 'cfloat_s%d_san' % k, g, 'rnd', c, 20 * c, shards=4) for k in (10, 11) for g, c in (('arith', 600), ('cmp', 400), ('conv', 100), ('sqrt', 300))] +
                   [san('san_%s_%s' % (d, g), d + '_small_san', g, 'exh', 0, 0, of_quick=(64 if g in ('arith', 'cmp', 'logic') else None))
                    for d, gs in (('fixpnt', ('arith', 'cmp', 'conv', 'sqrt')), ('integer', ('arith', 'logic', 'cmp', 'conv', 'sqrt')), ('lns', ('arith', 'cmp', 'conv'))) for g in gs] +
                   [san('san_%s_large_%s' % (d, g), d + '_large_san', g, 'rnd', c, 20 * c)
                    for d, gs in (('fixpnt', (('arith', 300), ('cmp', 200), ('conv', 60), ('sqrt', 100))), ('integer', (('arith', 300), ('logic', 200), ('cmp', 200), ('conv', 60), ('sqrt', 100))),
                                  ('lns', (('arith', 300), ('cmp', 200), ('conv', 60)))) for g, c in gs] +
                   [san('san_areal_from', 'areal_all_san', 'from', 'exh', 0, 0), san('san_areal_to', 'areal_all_san', 'to', 'exh', 0, 0), san('san_areal_rnd', 'areal_all_san', 'from', 'rnd', 300, 6000),
                    san('san_quire', 'quire_all_san', None, 'rnd', 40, 800), san('san_text_exh', 'text_all_san', None, 'exh', 0, 0, shards=8), san('san_text_rnd', 'text_all_san', None, 'rnd', 500, 10000),
                    san('san_elastic', 'elastic_all_san', None, 'rnd', 150, 3000, shards=8), san('san_convcfg_exh', 'convcfg_p0_san', 'arith', 'exh', 0, 0, shards=8),
                    san('san_convcfg_rnd', 'convcfg_p0_san', 'arith', 'rnd', 800, 16000, shards=8), san('san_ddqd', 'dd_all_san', None, 'rnd', 200, 4000),
                    san('san_programs', 'programs_san', None, 'rnd', 1500, 30000, shards=10, what='random straight-line programs per type family (results feed the next operation) under ASan+UBSan'),
                    san('tsan_threads', 'threads_tsan', None, 'rnd', 1500, 20000, shards=10,
                        what='the same programs on 8 threads per family and all families concurrently under ThreadSanitizer; digests equal to sequential execution')],
    },
    'C10': {
        'level': 'proof', 'coq': 'Properties_C10',
        'rule': 'normalised dd (qd) operands built by the driver with exact two_sum steps: leading exponents -40..40 (5% up to +-800), exponent gaps 0..110 (220 for qd), '
                'tails that are zero, exactly half an ulp (ties), or separated by up to 40 extra bits; pair classes: cancelling heads with independent tails, equal, '
                'negated, power-of-two multiplier. Each result of + - * / sqrt and < == <= is judged in exact rationals: normalised (every component at most half an '
                'ulp of its predecessor) and |result - exact| <= K 2^-106 |exact| (K = 4 add/sub, 8 mul, 16 div, 32 sqrt; 2^-212 for qd); overflowing / underflowing '
                'exact results are outside the property. Built twice (-O1, -O2 -ffp-contract=off). non-trivial = all',
        'assumptions': ['the relative-error bounds for all inputs are NOT a theorem (DESIGN section 6 C10): they are enforced per case by the acceptance predicate'],
        'streams': [{'name': 'dd_qd_arith', 'driver': 'dd_all', 'what': 'dd and qd arithmetic, -O1',
                     'timeout': 6000, 'runs': {'quick': [dict(args=['--mode', 'rnd', '--count', '600'], shards=16)], 'thorough': [dict(args=['--mode', 'rnd', '--count', '12000'], shards=16)]}},
                    {'name': 'dd_qd_arith_o2', 'driver': 'dd_o2', 'what': 'dd and qd arithmetic, -O2 -ffp-contract=off',
                     'timeout': 6000, 'runs': {'quick': [dict(args=['--mode', 'rnd', '--count', '300'], shards=16)], 'thorough': [dict(args=['--mode', 'rnd', '--count', '6000'], shards=16)]}}],
    },
    'C13': {
        'level': 'proof', 'coq': 'Properties_C13', 'pregen': ['gen_tables.py'],
        'rule': 'doubles with aimed structure (exponent gaps 0..110 between the operands, significands that are zero / all ones / one bit / sparse / random with '
                'trailing zeros, cancelling and equal pairs, subnormals, values at the split threshold) through two_sum, two_diff, quick_two_sum, two_prod, two_sqr, '
                'split, three_sum; built twice (-O1 and -O2 -ffp-contract=off); generic twoSum on all pairs of quarter (cfloat<8,2>) and cfloat<8,4> and samples of half '
                'and bfloat_t. Judged against the specification in exact rationals: first output = RN(exact), outputs sum exactly to the inputs. non-trivial = all',
        'assumptions': ['inputs above half the largest double and products outside [2^-900, 2^1000] are outside the property and not judged'],
        'streams': [{'name': 'eft_double', 'driver': 'eft_all', 'what': 'double EFTs, -O1',
                     'timeout': 6000, 'runs': {'quick': [dict(args=['--mode', 'rnd', '--count', '800'], shards=16)], 'thorough': [dict(args=['--mode', 'rnd', '--count', '15000'], shards=16)]}},
                    {'name': 'eft_double_o2', 'driver': 'eft_o2', 'what': 'double EFTs, -O2 -ffp-contract=off',
                     'timeout': 6000, 'runs': {'quick': [dict(args=['--mode', 'rnd', '--count', '600'], shards=16)], 'thorough': [dict(args=['--mode', 'rnd', '--count', '12000'], shards=16)]}},
                    {'name': 'eft_cfloat', 'driver': 'eft_all', 'what': 'generic twoSum on cfloat types', 'exhaustive': {'quick': False, 'thorough': False},
                     'runs': {'quick': [dict(args=['--mode', 'cfloat', '--count', '20000'], shards=4)], 'thorough': [dict(args=['--mode', 'cfloat', '--count', '150000'], shards=4)]}}],
    },
    'C15': {
        'level': 'proof', 'coq': 'Properties_C15',
        'rule': 'ordered (source, target) pairs: 22 posit->posit pairs (different nbits and es, identity pairs), 13 cfloat->cfloat pairs (different geometry and '
                'sub/sup/sat flags), 32 fixpnt->fixpnt pairs (Modulo and Saturate; more/fewer integer and fraction bits), 18 integer->integer pairs, 21 lns->lns pairs (both behaviours, more/fewer fraction bits), 6 posit->integer '
                'and 6 integer->posit adapter pairs; every source encoding when the source has <= 12 bits, structured samples above. The target must hold the value '
                'nearest to the source under its own rounding and range rule (identity when representable). non-trivial = all; distinct = distinct lines',
        'assumptions': ['the sign of a zero is not required to survive a cfloat -> cfloat conversion', 'conversions between families through double are not covered', 'lns -> lns is judged by an acceptance predicate (nearest multiple of 2^-r2 of the exact logarithm E1/2^r1; either neighbour at an exact tie, because the library goes through double), proved to accept only the identity when the value is representable'],
        'streams': [exh('convcfg_exh%d' % k, 'convcfg_p%d' % k, 'arith', shards=8) for k in range(3)] +
                   [rnd('convcfg_rnd%d' % k, 'convcfg_p%d' % k, 'arith', 3000, 60000, shards=8) for k in range(3)],
    },
    'C14': {
        'level': 'proof', 'coq': 'Properties_C14',
        'rule': 'einteger<uint8_t|uint16_t|uint32_t>: operands of 1..12 limbs built limb by limb (limbs drawn from {0, 1, BASE-1, BASE/2, random}), every sign '
                'combination, equal and negated pairs, + - * / % six comparisons, shifts by 0..3 limbs, and chains of 6 operations on an accumulator (growth and '
                'shrinkage), every step judged against Z; edecimal: decimal strings of 1..40 digits in, decimal strings out, compared byte by byte with the '
                'canonical expansion; erational: numerator/denominator pairs, results must be in lowest terms with positive denominator and zero = +0/1. '
                'non-trivial = all; distinct = distinct lines',
        'assumptions': ['division by zero is not judged'],
        'streams': [{'name': 'elastic_rnd', 'driver': 'elastic_all', 'what': 'random operands and chains for einteger, edecimal, erational',
                     'runs': {'quick': [dict(args=['--mode', 'rnd', '--count', '400'], shards=8)], 'thorough': [dict(args=['--mode', 'rnd', '--count', '10000'], shards=8)]}}],
    },
    'C16': {
        'level': 'proof', 'coq': 'Properties_C16',
        'rule': 'every encoding of the small configurations (posit 4..12 bits, cfloat 8..12, fixpnt 4..12, integer 4..12) and structured samples of the '
                'large ones (up to 128 bits, widths that are not multiples of 4 / 8 included): posit hex_format -> parse and operator>>, cfloat '
                'to_binary -> assign, fixpnt to_binary -> assign, integer hex and decimal strings -> parse must return the same encoding; decimal '
                'output of integer and fixpnt is compared byte by byte with the exact expansion; random decimal / hexadecimal digit strings up to the '
                'capacity of the type (+1 digit) must parse to that integer mod 2^nbits. The strings themselves (posit hex_format, cfloat and '
                'fixpnt to_binary, integer to_hex) are compared byte for byte with the model strings, and the transcribed assign() parsers '
                '(cf_assign, fx_assign, posit_parse: proved inverse to the printers for every width) are compared with cfloat::assign / fixpnt::assign / posit parse() on the '
                'printed strings and on mutated ones (nibble marker inserted, one character replaced or deleted, a separator moved). '
                'non-trivial = all; distinct = distinct lines',
        'assumptions': ['einteger/edecimal decimal output is covered by C14', 'texts that do not match the posit pattern (the library reads them as floating-point literals) and the fixpnt decimal branch (marked TBD in the library) are not transcribed: such strings are run but not judged'],
        'streams': [{'name': 'text_exh', 'driver': 'text_all', 'what': 'text forms, every encoding of the small configurations', 'exhaustive': {'quick': True, 'thorough': True},
                     'runs': {'quick': [dict(args=['--mode', 'exh'], shards=8)], 'thorough': [dict(args=['--mode', 'exh'], shards=8)]}},
                    {'name': 'text_rnd', 'driver': 'text_all', 'what': 'text forms, structured samples of the large configurations',
                     'runs': {'quick': [dict(args=['--mode', 'rnd', '--count', '2000'], shards=16)], 'thorough': [dict(args=['--mode', 'rnd', '--count', '50000'], shards=16)]}}],
    },
    'C12': {
        'level': 'translation_validation', 'coq': 'Properties_C12',
        'rule': 'for integer, fixpnt (Modulo and Saturate), cfloat (two flag combinations), lns and areal at sizes around every block boundary '
                '(7 8 9 15 16 17 24 31 32 33 48 63 64 65 96 bits) each operation (+ - * / % neg shifts, bitwise, comparisons, ++/--, native '
                'conversions) is executed once per BlockType (uint8_t, uint16_t, uint32_t, and uint64_t where one block holds the number) on the '
                'same operands and the raw result bits are compared; all pairs for the 7..9-bit sizes, structured sampling above. '
                'non-trivial = distinct case lines',
        'assumptions': ['einteger block types are covered by C14'],
        'streams': [blk('blocks_integer_arith', 0, 'arith', 1500, 30000), blk('blocks_integer_logic', 0, 'logic', 400, 8000), blk('blocks_integer_cmp', 0, 'cmp', 400, 8000),
                    blk('blocks_integer_conv', 0, 'conv', 200, 3000),
                    blk('blocks_fixpnt_arith', 1, 'arith', 1500, 30000), blk('blocks_fixpnt_cmp', 1, 'cmp', 400, 8000), blk('blocks_fixpnt_conv', 1, 'conv', 200, 3000),
                    blk('blocks_cfloat_arith', 2, 'arith', 1500, 30000), blk('blocks_cfloat_cmp', 2, 'cmp', 400, 8000), blk('blocks_cfloat_conv', 2, 'conv', 200, 3000),
                    blk('blocks_lns_areal_arith', 3, 'arith', 1000, 20000), blk('blocks_lns_areal_conv', 3, 'conv', 200, 3000),
                    blk('blocks_small_exh_int', 0, 'arith', 0, 0, mode='exh'), blk('blocks_small_exh_fx', 1, 'arith', 0, 0, mode='exh')],
    },
    'C19': {
        'level': 'translation_validation', 'coq': 'Properties_C19',
        'rule': 'the same driver source compiled twice per number system (*_THROW_ARITHMETIC_EXCEPTION off / on), run on identical operands and '
                'compared line by line: a throw must occur exactly for the operands the property names (posit: NaR operand, division by zero/NaR; '
                'cfloat: signalling NaN operand, division by zero/NaN; fixpnt, integer, lns, einteger, edecimal, erational: division by zero) with the documented exception type, '
                'and every result that is returned must be bit-identical to the quiet build. exhaustive on all operand pairs of the small '
                'configurations, sampled above. non-trivial = lines where the builds differ (exceptions)',
        'assumptions': ['cfloat division with a quiet-NaN dividend is not judged (the property lists signalling NaN operands only; the code throws)'],
        'streams': [pair('posit_throw_exh', 'posit_small', 'posit_small_thr', ['--mode', 'exh', '--group', 'arith'], ['--mode', 'exh', '--group', 'arith'], cmp_throw, exhaustive=True),
                    pair('posit_throw_rnd', 'posit_large', 'posit_large_thr', ['--mode', 'rnd', '--group', 'arith', '--count', '1500'], ['--mode', 'rnd', '--group', 'arith', '--count', '30000'], cmp_throw, shards=23),
                    pair('fixpnt_throw_exh', 'fixpnt_small', 'fixpnt_small_thr', ['--mode', 'exh', '--group', 'arith'], ['--mode', 'exh', '--group', 'arith'], cmp_throw, exhaustive=True),
                    pair('integer_throw_exh', 'integer_small', 'integer_small_thr', ['--mode', 'exh', '--group', 'arith'], ['--mode', 'exh', '--group', 'arith'], cmp_throw, exhaustive=True),
                    pair('integer_throw_rnd', 'integer_large', 'integer_large_thr', ['--mode', 'rnd', '--group', 'arith', '--count', '600'], ['--mode', 'rnd', '--group', 'arith', '--count', '10000'], cmp_throw),
                    pair('lns_throw_exh', 'lns_small', 'lns_small_thr', ['--mode', 'exh', '--group', 'muldiv'], ['--mode', 'exh', '--group', 'muldiv'], cmp_throw, exhaustive=True),
                    pair('elastic_throw_rnd', 'elastic_all', 'elastic_all_thr', ['--mode', 'rnd', '--count', '300', '--zero'], ['--mode', 'rnd', '--count', '6000', '--zero'], cmp_throw, shards=8,
                         what='einteger / edecimal / erational, quiet vs *_THROW_ARITHMETIC_EXCEPTION, a quarter of the divisors zero')] +
                   [pair('cfloat_throw_exh%d' % k, 'cfloat_s%d' % k, 'cfloat_s%d_thr' % k, ['--mode', 'exh', '--group', 'arith'], ['--mode', 'exh', '--group', 'arith'], cmp_throw, exhaustive=True) for k in range(4)] +
                   [pair('cfloat_throw_rnd%d' % k, 'cfloat_s%d' % k, 'cfloat_s%d_thr' % k, ['--mode', 'rnd', '--group', 'arith', '--count', '1500'], ['--mode', 'rnd', '--group', 'arith', '--count', '30000'], cmp_throw, shards=4) for k in (10, 11)],
    },
    'C17': {
        'level': 'proof', 'coq': 'Properties_C17', 'pregen': ['gen_tables.py'],
        'rule': 'every encoding of every small posit / cfloat / fixpnt / integer configuration (all <= 10 bits, posit also 12..16 bits in the thorough tier) '
                'and structured samples of the large ones: sqrt(x) must equal the correctly rounded root for formats <= 16 bits and be one of the two '
                'neighbours above; negative arguments, zero, inf, NaN/NaR per the property. non-trivial = all; distinct = distinct lines',
        'assumptions': ['sqrt of a negative fixpnt/integer (documented exception) is not judged'],
        'streams': [exh('posit_sqrt_exh', 'posit_small', 'sqrt'), rnd('posit_sqrt_rnd', 'posit_large', 'sqrt', 3000, 60000, shards=23),
                    exh('fixpnt_sqrt_exh', 'fixpnt_small', 'sqrt'), rnd('fixpnt_sqrt_rnd', 'fixpnt_large', 'sqrt', 2000, 30000, shards=16),
                    exh('integer_sqrt_exh', 'integer_small', 'sqrt'), rnd('integer_sqrt_rnd', 'integer_large', 'sqrt', 2000, 30000, shards=16)] +
                   [exh('cfloat_sqrt_exh%d' % k, 'cfloat_s%d' % k, 'sqrt') for k in range(4)] +
                   [rnd('cfloat_sqrt_rnd%d' % k, 'cfloat_s%d' % k, 'sqrt', 3000, 50000, shards=4) for k in (10, 11, 12)],
    },
    'C11': {
        'level': 'translation_validation', 'coq': 'Properties_C11',
        'rule': 'two builds of the same driver source (generic posit / POSIT_FAST_SPECIALIZATION) run on identical inputs and compared line by '
                'line: all pairs x {+,-,*,/,6 comparisons}, all encodings x {reciprocal, abs, sqrt, ++, --, to float/double/int/long long}, '
                'model-aimed native sources, for 2_0 3_0 3_1 4_0 8_0 8_1 8_2 (exhaustive) and 16_1 16_2 32_2 (structured sampling); the generic '
                'build is also judged by the Coq model, which referees who is wrong. The C API: the pure C posit8 / posit8_1 library and the C shim '
                '(posit8/16/32/64) are called through their C entry points by one driver that is also built over the generic posit<n,es> and compared line '
                'by line (all operand pairs for 8 bits; + - * / sqrt, six relations / cmp, from float/double/int/long long/unsigned, to float/double/int/long long). '
                'non-trivial = lines where the builds differ; table theorems: generated from the specialised headers on every run',
        'assumptions': ['operations a fast specialisation does not offer (missing/ambiguous overloads) are skipped, not counted as differences'],
        'pregen': ['gen_tables.py'],
        'streams': [
            {'name': 'posit_fast_vs_generic_exh', 'kind': 'pair', 'driver': 'posit_fastset_generic', 'driver2': 'posit_fastset_fast', 'compare': cmp_same,
             'judge_ref': True, 'what': 'fast vs generic, exhaustive on 2_0 3_0 3_1 4_0 8_0 8_1 8_2', 'exhaustive': {'quick': True, 'thorough': True},
             'runs': {'quick': [dict(args=['--mode', 'exh', '--group', 'all1'], shards=16)], 'thorough': [dict(args=['--mode', 'exh', '--group', 'all1'], shards=16)]}},
            {'name': 'posit_fast_vs_generic_rnd', 'kind': 'pair', 'driver': 'posit_fastset_generic', 'driver2': 'posit_fastset_fast', 'compare': cmp_same,
             'judge_ref': True, 'what': 'fast vs generic, structured sampling on 16_1 16_2 32_2',
             'runs': {'quick': [dict(args=['--mode', 'rnd', '--group', 'all1', '--count', '3000'], shards=3)],
                      'thorough': [dict(args=['--mode', 'rnd', '--group', 'all1', '--count', '40000'], shards=3)]}},
        ] + [
            {'name': 'capi_pure_%s' % g, 'kind': 'pair', 'driver': 'capi_gen1', 'driver2': 'capi_pure', 'compare': cmp_same, 'judge_ref': True,
             'what': 'pure C posit8 / posit8_1 library (c_api/pure_c, posit_8_0.h, posit_8_1.h) vs generic posit<8,0> / posit<8,1>, every operand (pair), group ' + g,
             'exhaustive': {'quick': True, 'thorough': True},
             'runs': {'quick': [dict(args=['--mode', 'exh', '--group', g], shards=8)], 'thorough': [dict(args=['--mode', 'exh', '--group', g], shards=8)]}}
            for g in ('arith', 'cmp', 'conv', 'sqrt')
        ] + [
            {'name': 'capi_shim_exh_%s' % g, 'kind': 'pair', 'driver': 'capi_gen2', 'driver2': 'capi_shim', 'compare': cmp_same, 'judge_ref': False,
             'what': 'C shim (c_api/shim/posit/posit_c_api.cpp) posit8 vs generic posit<8,0>, every operand (pair), group ' + g,
             'exhaustive': {'quick': True, 'thorough': True},
             'runs': {'quick': [dict(args=['--mode', 'exh', '--group', g], shards=8)], 'thorough': [dict(args=['--mode', 'exh', '--group', g], shards=8)]}}
            for g in ('arith', 'cmp', 'conv', 'sqrt')
        ] + [
            {'name': 'capi_shim_rnd_%s' % g, 'kind': 'pair', 'driver': 'capi_gen2', 'driver2': 'capi_shim', 'compare': cmp_same, 'judge_ref': False,
             'what': 'C shim posit16 / posit32 / posit64 vs generic posit<16,1> <32,2> <64,3>, structured sampling, group ' + g,
             'runs': {'quick': [dict(args=['--mode', 'rnd', '--group', g, '--count', str(q)], shards=3)], 'thorough': [dict(args=['--mode', 'rnd', '--group', g, '--count', str(20 * q)], shards=3)]}}
            for g, q in (('arith', 3000), ('cmp', 2000), ('conv', 300), ('sqrt', 2000))
        ],
    },
    'C01': {
        'level': 'proof', 'coq': 'Properties_C01',
        'rule': 'exhaustive: all encodings/pairs of 26 posit configs <= 8 bits x {add,sub,mul,div,rcp,neg,abs}; sampled: structured '
                'operands (specials, extremes, every regime length x tail class, related pairs) for 23 configs 11..64 bits. ' + NT,
        'assumptions': ['layer-S Coq model compared with the C++ public API; configurations above 8 (quick) / 10 (thorough) bits are sampled'],
        'streams': [exh('posit_arith_exh', 'posit_small', 'arith'),
                    exh('posit_arith_mid', 'posit_mid', 'arith', thorough_only=True),
                    rnd('posit_arith_rnd', 'posit_large', 'arith', 1200, 30000, shards=23)],
    },
    'C02': {
        'level': 'proof', 'coq': 'Properties_C02',
        'rule': 'exhaustive: all operand pairs of every cfloat configuration in sets 0-3 (8-bit es 1..6 and smaller, all sub/sup/sat '
                'combinations) x {add,sub,mul,div,neg}; sampled: field-structured operands for half, bfloat_t, single, duble, quad and '
                'other multi-block configurations. ' + NT,
        'assumptions': ['NaN results are compared as a class; zero sums may carry either sign'],
        'streams': [exh('cfloat_arith_exh%d' % k, 'cfloat_s%d' % k, 'arith') for k in range(4)] +
                   [exh('cfloat_arith_mid', 'cfloat_s4', 'arith', thorough_only=True)] +
                   [rnd('cfloat_arith_rnd%d' % k, 'cfloat_s%d' % k, 'arith', q, t, shards=4) for k, q, t in ((10, 1500, 40000), (11, 1200, 30000), (12, 400, 8000))] +
                   [{'name': 'cfloat_arith_rnd13', 'driver': 'cfloat_s13', 'what': 'fp80 / quad / cfloat<100,15> samples (the exact-rational judge is slow at 15 exponent bits)',
                     'runs': {'thorough': [dict(args=['--mode', 'rnd', '--group', 'arith', '--count', '60'], shards=6)]}}],
    },
    'C07': {
        'level': 'proof', 'coq': 'Properties_C07',
        'rule': 'exhaustive: all pairs of fixpnt<4..8, 0..n, Modulo|Saturate, uint8_t> x {add,sub,mul,div}, all encodings x {neg,++,--}; '
                'sampled: structured operands for 19 configurations 12..64 bits x 3 block types. ' + NT,
        'assumptions': ['division by zero is not judged (C19/C20 cover it)'],
        'streams': [exh('fixpnt_arith_exh', 'fixpnt_small', 'arith'),
                    rnd('fixpnt_arith_rnd', 'fixpnt_large', 'arith', 2000, 50000, shards=16)],
    },
    'C08': {
        'level': 'proof', 'coq': 'Properties_C08',
        'rule': 'exhaustive: all pairs of integer<4..8, u8|u16|u32> x {add,sub,mul,div,rem,and,or,xor}, all encodings x {neg,not} and all '
                'shift counts in [-n-1, n+1]; sampled: structured operands (carry chains, minint, sparse) for 25 configurations 12..256 '
                'bits x block types. ' + NT,
        'assumptions': ['division by zero is not judged (C19/C20 cover it)'],
        'streams': [exh('integer_arith_exh', 'integer_small', 'arith'), exh('integer_logic_exh', 'integer_small', 'logic'),
                    rnd('integer_arith_rnd', 'integer_large', 'arith', 1500, 40000, shards=16),
                    rnd('integer_logic_rnd', 'integer_large', 'logic', 500, 10000, shards=16),
                    exh('integer_intconv_exh', 'integer_small', 'intconv'), rnd('integer_intconv_rnd', 'integer_large', 'intconv', 300, 5000, shards=16),
                    exh('integer_sizeconv_exh', 'convcfg_p2', 'arith', shards=8, what='conversions between integer sizes (and fixpnt configurations), every source encoding <= 12 bits'),
                    rnd('integer_sizeconv_rnd', 'convcfg_p2', 'arith', 3000, 60000, shards=8, what='conversions between integer sizes, block types u8/u16/u32/u64, sizes that do not fill the top block')],
    },
    'C09': {
        'level': 'proof', 'coq': 'Properties_C09',
        'rule': 'exhaustive: all pairs of 13 lns configurations <= 8 bits (Saturating and Wrapping) x {mul,div} and x {add,sub} '
                '(acceptance: result must bracket the exact sum, decided with certified rational enclosures of 2^(k/2^r)); sampled for '
                '12 configurations 12..64 bits. ' + NT,
        'assumptions': ['add/sub: the for-all claim is carried by the per-case acceptance predicate, not by a theorem (the implementation goes through double/libm)'],
        'streams': [exh('lns_muldiv_exh', 'lns_small', 'muldiv'), exh('lns_addsub_exh', 'lns_small', 'addsub'),
                    rnd('lns_arith_rnd', 'lns_large', 'arith', 600, 15000, shards=12)],
    },
    'C05': {
        'level': 'proof', 'coq': 'Properties_C05',
        'rule': 'random histories (1..40 steps of += posit, -= posit, += quire_mul(a,b)) for 10 quire configurations; every step prints '
                'the complete state (sign + all qbits) before and after and is judged against the exact integer model, so each history '
                'is validated inductively; each history is replayed permuted and partitioned into 2-4 partial quires that are added; '
                'conversion to posit after random steps; fdp on the same data in two orders. non-trivial = every step; distinct = distinct lines',
        'assumptions': ['steps whose exact result exceeds the quire capacity are outside the property precondition and not judged'],
        'streams': [{'name': 'quire_hist', 'driver': 'quire_all', 'what': 'random quire histories',
                     'runs': {'quick': [dict(args=['--mode', 'rnd', '--count', '150'], shards=10)],
                              'thorough': [dict(args=['--mode', 'rnd', '--count', '4000'], shards=10)]}}],
    },
    'C18': {
        'level': 'proof', 'coq': 'Properties_C18',
        'rule': 'for every encoding of 14 areal configurations <= 12 bits: sources = the exact value, its double neighbours, the midpoint '
                'to the next exact value and its neighbours, quarter points (as double and as float), specials, values beyond maxpos and below '
                'minpos; sampled for 10 configurations 16..48 bits. non-trivial = all; distinct = distinct lines',
        'assumptions': [],
        'streams': [exh('areal_from_exh', 'areal_all', 'from'), rnd('areal_from_rnd', 'areal_all', 'from', 1500, 40000, shards=10)],
    },
    'C03': {
        'level': 'proof', 'coq': 'Properties_C03',
        'rule': 'model-aimed sources per target encoding (exact value, double/float neighbours, midpoints and their neighbours, quarter '
                'points, integers around the value in every width/signedness that holds them) + specials (zeros, infinities, quiet and '
                'signalling NaNs, subnormals, extremes, 2^24/2^53/2^63 boundaries) for every small posit/cfloat/fixpnt/integer '
                'configuration; sampled for the large ones. non-trivial = all; distinct = distinct lines',
        'assumptions': ['lns conversion is judged by an acceptance predicate with certified enclosures (LnsModel.l_conv_accept): the nearest log-domain value, or its neighbour when the source is within (|log2 x| + 2) 2^-50 (relative) of the log-domain midpoint; '],
        'streams': [exh('posit_from_exh', 'posit_small', 'from'), rnd('posit_from_rnd', 'posit_large', 'from', 400, 8000, shards=23)] +
                   [exh('cfloat_from_exh%d' % k, 'cfloat_s%d' % k, 'from') for k in range(4)] +
                   [rnd('cfloat_from_rnd%d' % k, 'cfloat_s%d' % k, 'from', 400, 8000, shards=4) for k in (10, 11, 12)] +
                   [exh('fixpnt_from_exh', 'fixpnt_small', 'from'), rnd('fixpnt_from_rnd', 'fixpnt_large', 'from', 300, 6000, shards=16),
                    exh('integer_from_exh', 'integer_small', 'from'), rnd('integer_from_rnd', 'integer_large', 'from', 300, 6000, shards=16),
                    exh('lns_from_exh', 'lns_small', 'from'), rnd('lns_from_rnd', 'lns_large', 'from', 60, 1500, shards=16),
                    {'name': 'dd_qd_from', 'driver': 'dd_all', 'what': 'dd and qd constructed / assigned (onto an object holding junk) from 64- and 32-bit integers, doubles and floats: components must sum exactly to the source and be normalised',
                     'runs': {'quick': [dict(args=['--mode', 'from', '--count', '2000'], shards=8)], 'thorough': [dict(args=['--mode', 'from', '--count', '40000'], shards=8)]}}],
    },
    'C04': {
        'level': 'proof', 'coq': 'Properties_C04', 'pregen': ['gen_tables.py'],
        'rule': 'every encoding of every small posit/cfloat/fixpnt/integer/areal configuration: double(x), float(x), T(double(x)), '
                'int/long long (x); sampled for large configurations whose values fit the native type. non-trivial = all; distinct = distinct lines',
        'assumptions': ['NaN results compared as a class'],
        'streams': [exh('posit_to_exh', 'posit_small', 'to'), rnd('posit_to_rnd', 'posit_large', 'to', 600, 10000, shards=23)] +
                   [exh('cfloat_to_exh%d' % k, 'cfloat_s%d' % k, 'to') for k in range(4)] +
                   [rnd('cfloat_to_rnd%d' % k, 'cfloat_s%d' % k, 'to', 600, 10000, shards=4) for k in (10, 11)] +
                   [exh('fixpnt_to_exh', 'fixpnt_small', 'to'), rnd('fixpnt_to_rnd', 'fixpnt_large', 'to', 500, 8000, shards=16),
                    exh('integer_to_exh', 'integer_small', 'to'), rnd('integer_to_rnd', 'integer_large', 'to', 500, 8000, shards=16), exh('areal_to_exh', 'areal_all', 'to'),
                    {'name': 'dd_qd_readback', 'driver': 'dd_all', 'what': 'double(dd), double(qd) on normalised operands',
                     'runs': {'quick': [dict(args=['--mode', 'readback', '--count', '1500'], shards=8)], 'thorough': [dict(args=['--mode', 'readback', '--count', '30000'], shards=8)]}}],
    },
    'C06': {
        'level': 'proof', 'coq': 'Properties_C06',
        'rule': 'all ordered pairs of every small posit/cfloat/fixpnt/integer/lns configuration x {==,!=,<,<=,>,>=}; ++/-- on every encoding; '
                'std::numeric_limits<T>::max / lowest / min / epsilon / denorm_min of every configuration compared with the extremes and spacing of the '
                'modelled value set (LimitsModel.v); sampled for large configurations. non-trivial = all; distinct = distinct lines',
        'assumptions': [],
        'streams': [exh('posit_cmp_exh', 'posit_small', 'cmp'), rnd('posit_cmp_rnd', 'posit_large', 'cmp', 800, 15000, shards=23)] +
                   [exh('cfloat_cmp_exh%d' % k, 'cfloat_s%d' % k, 'cmp') for k in range(4)] +
                   [rnd('cfloat_cmp_rnd%d' % k, 'cfloat_s%d' % k, 'cmp', 800, 15000, shards=4) for k in (10, 11, 12)] +
                   [exh('fixpnt_cmp_exh', 'fixpnt_small', 'cmp'), rnd('fixpnt_cmp_rnd', 'fixpnt_large', 'cmp', 600, 10000, shards=16),
                    exh('integer_cmp_exh', 'integer_small', 'cmp'), rnd('integer_cmp_rnd', 'integer_large', 'cmp', 600, 10000, shards=16),
                    exh('lns_cmp_exh', 'lns_small', 'cmp'), rnd('lns_cmp_rnd', 'lns_large', 'cmp', 600, 10000, shards=16)],
    },
}
