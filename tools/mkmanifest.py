#!/usr/bin/env python3
"""Regenerate MANIFEST.json from tools/plans.py (claimed properties) and properties.jsonl."""
import json, os, sys
ROOT = os.path.dirname(os.path.dirname(os.path.abspath(__file__)))
sys.path.insert(0, os.path.join(ROOT, 'tools'))
import plans
props = [json.loads(l) for l in open(os.path.join(ROOT, 'properties.jsonl'))]
TEXT = {
 'C01': ("proof", "Coq theorems for every width n >= 2 and es >= 0: the value order of posit patterns, the rounding used by every operation is the Posit-Standard rule (nearest, ties to the even encoding via the (n+1)-bit posit, clamp to maxpos/minpos, zero only for zero, never NaR), + - * / reciprocal are that rounding of the exact result, NaR/zero algebra, exact neg/abs. The executable model is tied to the C++ by exhaustive correspondence on all 26 configurations <= 8 bits (thorough: <= 10) and structured sampling up to 64 bits."),
 'C02': ("proof", "Coq theorems for every cfloat geometry and flag combination: encoding order = value order, rounding is nearest/ties-even over the finite values extended by the first value past the range (= IEEE overflow rule), flush without subnormals, inf or maxpos (saturating) beyond the range, IEEE special-value algebra and xor sign of zero products. Correspondence: all operand pairs of 34 configurations <= 8 bits (all sub/sup/sat combinations), structured sampling for half, bfloat_t, single, duble and multi-block types."),
 'C03': ("proof", "Theorems: every conversion is the target's rounding function applied to the exact value of the source (so it is independent of the width of the native type), posit/cfloat/fixpnt rounding statements, exactness on representable values, special-value mapping. Correspondence with model-aimed sources (every target value, midpoints, their float/double neighbours, integers of every width) exhaustively for small targets, sampled for large."),
 'C04': ("proof", "Theorems: rounding the decoded value returns the encoding (posit, cfloat, fixpnt, integer round trips), truncation toward zero. Correspondence: double(x), float(x), T(double(x)), int/long long(x) for every encoding of the small configurations, sampled for large ones, judged only when the native type can hold the value."),
 'C05': ("proof", "Theorems (unbounded histories): every step adds exactly the accumulated value, any history gives the exact sum, canonical state => equal sums have identical bits, permutation and partition independence, conversion is one Posit-Standard rounding. Correspondence: random histories printed state-by-state (sign + all qbits) and judged per step, permuted and partitioned replays, fdp in two orders."),
 'C06': ("proof", "Theorems: posit < is the two's-complement order of encodings with NaR least and == is encoding equality, ++/-- are adjacent, extremes; fixpnt and cfloat value orders. Correspondence: all ordered pairs x six operators and ++/-- on every encoding for the small configurations, sampled for large."),
 'C07': ("proof", "Theorems for every n, r: add/sub exact modulo 2^n or clamped, Saturate never wraps, mul/div are round-to-nearest-even of the exact product/quotient then the range rule. Correspondence: all pairs of fixpnt<4..8, 0..n, Modulo|Saturate>, sampled 12..64 bits x block types."),
 'C08': ("proof", "Theorems for every n: + - * neg are the results mod 2^n, ring laws, truncating division with a = (a/b)*b + a%b on values and on wrapped results, shifts incl. counts >= n, widening/narrowing. Correspondence: all pairs of integer<4..8> x block types x all shift counts, sampled up to 256 bits."),
 'C09': ("proof", "Theorems: lns mul/div are exact exponent sums/differences with sign xor, clamp/flush (Saturating) or reduction mod 2^(n-1) (Wrapping), zero/NaN algebra, encode/decode round trip. add/sub are decided per case by an acceptance predicate with certified rational enclosures (not a for-all theorem: the implementation goes through libm). Correspondence: exhaustive <= 8 bits, sampled above."),
 'C11': ("translation_validation", "Two builds of one driver source (generic / POSIT_FAST_SPECIALIZATION) on identical inputs, compared line by line, the generic build refereed by the Coq model; lookup tables of the table-driven specialisations are re-extracted from the headers on every run and every entry is checked against the model by the Coq kernel."),
 'C12': ("translation_validation", "Every operation of integer, fixpnt, cfloat, lns and areal is executed once per BlockType (uint8_t, uint16_t, uint32_t, and uint64_t where one block holds the number) on the same operands at sizes around every block boundary, and the raw result bits are compared (all pairs for 7..9-bit sizes, structured sampling above); the Coq models have no block-type parameter, and the limb carry-chain addition is proved width-independent."),
 'C19': ("translation_validation", "The same driver source is compiled twice per number system (quiet / *_THROW_ARITHMETIC_EXCEPTION) and run on identical operands: an exception must be thrown exactly for the operands the property lists, with the documented type, and every returned result must be bit-identical; exhaustive on all operand pairs of the small configurations of posit, cfloat (all flag combinations), fixpnt, integer, lns. The Coq model proves which operands yield the error value in quiet mode."),
 'C17': ("proof", "Model: correctly rounded root = the generic nearest-even rounding over the squared valuation (no reals); theorems for floor/nearest integer roots; sqrt tables re-extracted from the headers on every run and checked entry by entry by the kernel. Correspondence: every encoding of the small posit/cfloat/fixpnt/integer configurations (exact up to 16 bits, adjacent above), sampled for large."),
 'C18': ("proof", "Theorems for every areal geometry: the encoding produced for any finite source passes the enclosure check, and the check means exactly the property (ubit clear: exact; ubit set: strictly between this exact value and the next away from zero; open interval above maxpos). Correspondence: model-aimed float/double sources for every encoding of 14 configurations <= 12 bits, sampled 16..48 bits."),
}
claimed = [p for p in sorted(plans.PLANS) if p in TEXT]
m = {"version": 1, "setup_cmd": "./setup.sh",
     "hooks": {"guard": "UNIVERSAL_VERIF_HOOKS",
               "enable": "drivers are compiled with -DUNIVERSAL_VERIF_HOOKS=1; no source hooks are needed (every observation uses public members), so the define guards nothing in /repo",
               "baseline_off_cmd": "cmake -G Ninja -B /repo/_build -S /repo -DBUILD_DEMONSTRATION=ON -DBUILD_REGRESSION_SANITY=ON -DCMAKE_BUILD_TYPE=RelWithDebInfo -DCMAKE_CXX_FLAGS=-Wno-error && cmake --build /repo/_build -j16 && ctest --test-dir /repo/_build -j8 --timeout 900",
               "source_commits": [], "add_only": True},
     "engines": [{"name": "uvcoq", "path": "bin/vcheck", "serves_properties": claimed,
                  "kind_free_text": "Coq 8.16 models + theorems (coq/), model extracted to OCaml (ExtrOcamlBasic only) as the judge, C++ drivers compiled from /repo's working tree on every run; correspondence driver | judge; tables regenerated from the headers on every run"}],
     "checks": [], "notes": "see DESIGN.md; genuine defects repaired in /repo are 'fix:' commits listed in KNOWN_FINDINGS.json (fixed), recorded ones print KNOWN-FINDING lines",
     "not_applicable": []}
for p in props:
    pid = p['id']
    if pid in claimed:
        cat, text = TEXT[pid]
        m['checks'].append({"property_id": pid, "quick_cmd": "bin/vcheck %s --tier quick" % pid, "thorough_cmd": "bin/vcheck %s --tier thorough" % pid,
                            "evidence_file": "evidence/%s.json" % pid, "replay_cmd_template": "bin/vcheck --replay {path}", "engine": "uvcoq",
                            "level_claimed": {"category": cat, "text": text, "design_ref": "DESIGN.md section 6 " + pid},
                            "level_note": "trusted: Coq 8.16.1 kernel + VM, extraction (ExtrOcamlBasic), OCaml glue (parsing only), C++ drivers (public API calls, raw bits), g++ 12; the C++ is modelled, not verified: the tie is the correspondence check, exhaustive on the small configurations and sampled on the large ones; axioms: none (Print Assumptions of every property theorem: closed under the global context)",
                            "technique": "machine-checked proof (Coq) + extracted-model correspondence" if cat == 'proof' else "two-build differential + Coq model referee + kernel-checked generated tables"})
    else:
        m['not_applicable'].append({"property_id": pid, "reason": "no check registered yet in this round: the design (DESIGN.md section 6) applies the same technique, the driver/model for this property is still being built"})
json.dump(m, open(os.path.join(ROOT, 'MANIFEST.json'), 'w'), indent=1)
print('claimed', claimed)
