(* Theorems about the lns model: multiplication and division are exact in the log domain
   (exponent sum / difference, sign xor) with saturate / flush / wrap range rules. Every n >= 2. *)
From Coq Require Import ZArith QArith Lia Bool List.
From UV Require Import Num Verdict LnsModel IntProps.
Local Open Scope Z_scope.

Section L.
Variable n : Z.
Hypothesis Hn : 2 <= n.

Lemma l_pow : 2^(n-1) = 2 * 2^(n-2).
Proof. replace (n-1) with (Z.succ (n-2)) by lia. rewrite Z.pow_succ_r by lia. reflexivity. Qed.
Lemma l_pow_pos : 0 < 2^(n-2). Proof. apply Z.pow_pos_nonneg; lia. Qed.

(* decoding a valid (sign, exponent) encoding gives it back *)
Theorem l_decode_encode s E : l_special n < E <= l_emax n -> l_decode n (l_encode n (LVal s E)) = LVal s E.
Proof.
  intro HE. unfold l_special, l_emax in HE. assert (P := l_pow). assert (P0 := l_pow_pos).
  unfold l_encode, l_decode.
  assert (W : 0 <= wrap (n-1) E < 2^(n-1)) by (apply wrap_range; lia).
  assert (Hmod : ((if s then 2^(n-1) else 0) + wrap (n-1) E) mod 2^(n-1) = wrap (n-1) E).
  { destruct s.
    - rewrite Z.add_comm. replace (2^(n-1)) with (1 * 2^(n-1)) at 1 by ring. rewrite Z.mod_add by lia. apply Z.mod_small. lia.
    - apply Z.mod_small. lia. }
  assert (Hbit : Z.testbit ((if s then 2^(n-1) else 0) + wrap (n-1) E) (n-1) = s).
  { rewrite Z.testbit_eqb by lia.
    destruct s.
    - replace ((2^(n-1) + wrap (n-1) E) / 2^(n-1)) with 1. reflexivity.
      apply Z.div_unique with (r := wrap (n-1) E); lia.
    - rewrite Z.div_small by lia. reflexivity. }
  rewrite Hmod, Hbit.
  rewrite (sgn_wrap (n-1)) by lia. rewrite (sgn_id (n-1)) by (try lia; replace (n-1-1) with (n-2) by lia; lia).
  destruct (Z.eqb_spec E (l_special n)) as [Heq|_]; [unfold l_special in Heq; lia|reflexivity].
Qed.

Lemma l_decode_zero : l_decode n (l_encode n LZero) = LZero.
Proof.
  assert (P := l_pow). assert (P0 := l_pow_pos). unfold l_encode, l_decode.
  rewrite Z.mod_small by lia.
  assert (Hbit : Z.testbit (2^(n-2)) (n-1) = false).
  { rewrite Z.testbit_eqb by lia. rewrite Z.div_small by lia. reflexivity. }
  rewrite Hbit. unfold sgn. rewrite wrap_id by (try lia; replace (n-1) with (n-1) by lia; lia).
  replace (n-1-1) with (n-2) by lia.
  destruct (Z.ltb_spec (2^(n-2)) (2^(n-2))); [lia|].
  unfold l_special. destruct (Z.eqb_spec (2^(n-2) - 2^(n-1)) (- 2^(n-2))); [reflexivity|lia].
Qed.

(* Saturating multiplication / division of non-zero, non-NaN operands: exact exponent arithmetic,
   clamped to maxpos above, flushed to zero at or below the reserved pattern *)
Theorem l_mul_saturating a b sa Ea sb Eb :
  l_decode n a = LVal sa Ea -> l_decode n b = LVal sb Eb ->
  let E := Ea + Eb in
  l_decode n (l_mul n true a b) =
    if Z.leb (l_emax n) E then LVal (xorb sa sb) (l_emax n)
    else if Z.leb E (l_special n) then LZero else LVal (xorb sa sb) E.
Proof.
  intros Ha Hb E. unfold l_mul. rewrite Ha, Hb. unfold l_fit. fold E.
  assert (P0 := l_pow_pos).
  destruct (Z.leb_spec (l_emax n) E).
  - apply l_decode_encode. unfold l_special, l_emax. lia.
  - destruct (Z.leb_spec E (l_special n)).
    + apply l_decode_zero.
    + apply l_decode_encode. lia.
Qed.
Theorem l_div_saturating a b sa Ea sb Eb :
  l_decode n a = LVal sa Ea -> l_decode n b = LVal sb Eb ->
  let E := Ea - Eb in
  l_decode n (l_div n true a b) =
    if Z.leb (l_emax n) E then LVal (xorb sa sb) (l_emax n)
    else if Z.leb E (l_special n) then LZero else LVal (xorb sa sb) E.
Proof.
  intros Ha Hb E. unfold l_div. rewrite Ha, Hb. unfold l_fit. fold E.
  assert (P0 := l_pow_pos).
  destruct (Z.leb_spec (l_emax n) E).
  - apply l_decode_encode. unfold l_special, l_emax. lia.
  - destruct (Z.leb_spec E (l_special n)).
    + apply l_decode_zero.
    + apply l_decode_encode. lia.
Qed.
(* Wrapping: the exponent field is the sum / difference reduced modulo 2^(n-1), the sign the xor *)
Theorem l_mul_wrapping a b sa Ea sb Eb :
  l_decode n a = LVal sa Ea -> l_decode n b = LVal sb Eb ->
  l_mul n false a b = (if xorb sa sb then 2^(n-1) else 0) + (Ea + Eb) mod 2^(n-1).
Proof. intros Ha Hb. unfold l_mul. rewrite Ha, Hb. reflexivity. Qed.
Theorem l_div_wrapping a b sa Ea sb Eb :
  l_decode n a = LVal sa Ea -> l_decode n b = LVal sb Eb ->
  l_div n false a b = (if xorb sa sb then 2^(n-1) else 0) + (Ea - Eb) mod 2^(n-1).
Proof. intros Ha Hb. unfold l_div. rewrite Ha, Hb. reflexivity. Qed.

(* zero is absorbing, NaN propagates, division by zero is NaN *)
Theorem l_mul_specials sat a b :
  (l_decode n a = LNaN \/ l_decode n b = LNaN -> l_mul n sat a b = l_encode n LNaN) /\
  (l_decode n a <> LNaN -> l_decode n b <> LNaN -> l_decode n a = LZero \/ l_decode n b = LZero -> l_mul n sat a b = l_encode n LZero).
Proof.
  unfold l_mul. split.
  - intros [H|H]; rewrite H; [reflexivity|]. destruct (l_decode n a); reflexivity.
  - intros Na Nb [H|H]; rewrite H.
    + destruct (l_decode n b); try reflexivity. contradiction.
    + destruct (l_decode n a); try reflexivity. contradiction.
Qed.
Theorem l_div_specials sat a b :
  (l_decode n a = LNaN \/ l_decode n b = LNaN -> l_div n sat a b = l_encode n LNaN) /\
  (l_decode n a <> LNaN -> l_decode n b = LZero -> l_div n sat a b = l_encode n LNaN) /\
  (l_decode n a = LZero -> (exists s E, l_decode n b = LVal s E) -> l_div n sat a b = l_encode n LZero).
Proof.
  unfold l_div. repeat split.
  - intros [H|H]; rewrite H; [reflexivity|]. destruct (l_decode n a); reflexivity.
  - intros Na H. rewrite H. destruct (l_decode n a); reflexivity.
  - intros H (s & E & Hb). rewrite H, Hb. reflexivity.
Qed.
End L.

(* the comparison keys form a strict total order (used by C06 for lns) *)
Lemma key_lt_irrefl p : key_lt p p = false.
Proof. unfold key_lt. rewrite !Z.ltb_irrefl, Z.eqb_refl. reflexivity. Qed.
Lemma key_lt_trans p q r : key_lt p q = true -> key_lt q r = true -> key_lt p r = true.
Proof.
  unfold key_lt. intros H1 H2.
  apply orb_true_iff in H1. apply orb_true_iff in H2. apply orb_true_iff.
  destruct H1 as [H1|H1], H2 as [H2|H2];
    repeat match goal with
    | H : _ && _ = true |- _ => apply andb_true_iff in H; destruct H
    | H : Z.ltb _ _ = true |- _ => apply Z.ltb_lt in H
    | H : Z.eqb _ _ = true |- _ => apply Z.eqb_eq in H
    end.
  - left. apply Z.ltb_lt. lia.
  - left. apply Z.ltb_lt. lia.
  - left. apply Z.ltb_lt. lia.
  - right. apply andb_true_iff. split; [apply Z.eqb_eq; lia|apply Z.ltb_lt; lia].
Qed.
Lemma key_trichotomy p q : key_lt p q = true \/ key_eq p q = true \/ key_lt q p = true.
Proof.
  unfold key_lt, key_eq.
  destruct (Z.lt_trichotomy (fst p) (fst q)) as [H|[H|H]].
  - left. apply orb_true_iff. left. apply Z.ltb_lt. exact H.
  - destruct (Z.lt_trichotomy (snd p) (snd q)) as [G|[G|G]].
    + left. apply orb_true_iff. right. apply andb_true_iff. split; [apply Z.eqb_eq|apply Z.ltb_lt]; assumption.
    + right. left. apply andb_true_iff. split; apply Z.eqb_eq; assumption.
    + right. right. apply orb_true_iff. right. apply andb_true_iff. split; [apply Z.eqb_eq; lia|apply Z.ltb_lt; assumption].
  - right. right. apply orb_true_iff. left. apply Z.ltb_lt. exact H.
Qed.
Lemma key_lt_not_eq p q : key_lt p q = true -> key_eq p q = false.
Proof.
  unfold key_lt, key_eq. intro H. apply orb_true_iff in H. apply andb_false_iff.
  destruct H as [H|H].
  - left. apply Z.ltb_lt in H. apply Z.eqb_neq. lia.
  - apply andb_true_iff in H. destruct H as [_ H]. right. apply Z.ltb_lt in H. apply Z.eqb_neq. lia.
Qed.

(* identity when representable (r2 >= r1 and the scaled exponent is in the target's range): the only accepted result is that value *)
Theorem l2l_exact n1 r1 a n2 r2 sat c s E1 :
  0 <= r1 <= r2 -> l_decode n1 a = LVal s E1 ->
  l_emin n2 <= E1 * 2 ^ (r2 - r1) <= l_emax n2 ->
  l2l_accept n1 r1 a n2 r2 sat c = true -> l_decode n2 c = LVal s (E1 * 2 ^ (r2 - r1)).
Proof.
  intros Hr Hd Hrange H. unfold l2l_accept in H. rewrite Hd in H.
  set (E' := E1 * 2 ^ (r2 - r1)) in *.
  assert (Hden : 0 < 2 ^ r1) by (apply Z.pow_pos_nonneg; lia).
  assert (Hnum : E1 * 2 ^ r2 = E' * 2 ^ r1).
  { unfold E'. rewrite <- Z.mul_assoc, <- Z.pow_add_r by lia. do 2 f_equal. lia. }
  rewrite Hnum in H. set (den := 2 ^ r1) in *.
  assert (Hin : (Z.ltb ((2 * l_emin n2 - 1) * den) (2 * (E' * den)) && Z.ltb (2 * (E' * den)) ((2 * l_emax n2 + 1) * den)) = true).
  { apply andb_true_iff; split; apply Z.ltb_lt; nia. }
  rewrite Hin in H. cbn [negb andb] in H.
  destruct (l_decode n2 c) as [| |sc Ec].
  - rewrite andb_false_r in H. discriminate.
  - destruct sat; [|discriminate]. apply Z.leb_le in H. nia.
  - assert (Hok : (Bool.eqb sc s && Z.leb (l_emin n2) Ec && Z.leb Ec (l_emax n2) &&
                    (Z.leb (Z.abs (2 * (Ec * den - E' * den))) den || (sat && Z.eqb Ec (l_emax n2) && Z.leb (l_emax n2 * den) (E' * den)))) = true)
      by (destruct sat; exact H).
    clear H. repeat (apply andb_true_iff in Hok; destruct Hok as [Hok ?]).
    apply Bool.eqb_prop in Hok. subst sc. f_equal.
    match goal with Hx : (_ || _) = true |- _ => apply orb_true_iff in Hx; destruct Hx as [Hn | Hm] end.
    + apply Z.leb_le in Hn. nia.
    + repeat (apply andb_true_iff in Hm; destruct Hm as [Hm ?]).
      match goal with Hx : Z.eqb Ec _ = true |- _ => apply Z.eqb_eq in Hx end.
      match goal with Hx : Z.leb (l_emax n2 * den) _ = true |- _ => apply Z.leb_le in Hx end. nia.
Qed.
