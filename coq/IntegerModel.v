(* Executable model of integer<n, bt>: the integers modulo 2^n in two's complement. *)
From Coq Require Import ZArith QArith Lia Bool List.
From UV Require Import Num Ops Verdict NativeJudge.
Import ListNotations.
Local Open Scope Z_scope.

Definition SHIFT_BIAS : Z := 1024.           (* shift counts travel as k + 1024 *)

Definition i_add n a b := wrap n (sgn n a + sgn n b).
Definition i_sub n a b := wrap n (sgn n a - sgn n b).
Definition i_mul n a b := wrap n (sgn n a * sgn n b).
Definition i_div n a b := wrap n (Z.quot (sgn n a) (sgn n b)).      (* b <> 0; truncates toward zero *)
Definition i_rem n a b := wrap n (Z.rem (sgn n a) (sgn n b)).
Definition i_neg n a := wrap n (- sgn n a).
(* shifts of the two's complement value: left = multiply, right = floor division (arithmetic shift);
   a negative count shifts the other way *)
Definition i_shl n a k := if Z.leb 0 k then wrap n (sgn n a * 2^k) else wrap n (sgn n a / 2^(-k)).
Definition i_shr n a k := if Z.leb 0 k then wrap n (sgn n a / 2^k) else wrap n (sgn n a * 2^(-k)).
Definition i_and n a b := Z.land (wrap n a) (wrap n b).
Definition i_or n a b := Z.lor (wrap n a) (wrap n b).
Definition i_xor n a b := Z.lxor (wrap n a) (wrap n b).
Definition i_not n a := wrap n (- sgn n a - 1).
Definition i_lt n a b := Z.ltb (sgn n a) (sgn n b).
(* conversion between sizes: value preserved when it fits = sign extension / truncation *)
Definition i_conv (n m a : Z) : Z := wrap m (sgn n a).

Definition judge_integer (cfg : list Z) (op : Z) (args res : list Z) : verdict :=
  let n := nth0 cfg 0 in
  let a := nth0 args 0 in let b := nth0 args 1 in
  let exact (e : list Z) (nt : bool) := mkV (list_eqb e res) e nt in
  let ovf (x : Z) := negb (Z.eqb (sgn n (wrap n x)) x) in
  if Z.eqb op OP_add then exact [i_add n a b] (ovf (sgn n a + sgn n b)) else
  if Z.eqb op OP_sub then exact [i_sub n a b] (ovf (sgn n a - sgn n b)) else
  if Z.eqb op OP_mul then exact [i_mul n a b] (ovf (sgn n a * sgn n b)) else
  if Z.eqb op OP_div then (if Z.eqb (sgn n b) 0 then mkV true res false
                           else exact [i_div n a b] (negb (Z.eqb (Z.rem (sgn n a) (sgn n b)) 0))) else
  if Z.eqb op OP_rem then (if Z.eqb (sgn n b) 0 then mkV true res false
                           else exact [i_rem n a b] (negb (Z.eqb (Z.rem (sgn n a) (sgn n b)) 0))) else
  if Z.eqb op OP_neg then exact [i_neg n a] true else
  if Z.eqb op OP_shl then exact [i_shl n a (b - SHIFT_BIAS)] true else
  if Z.eqb op OP_shr then exact [i_shr n a (b - SHIFT_BIAS)] true else
  if Z.eqb op OP_band then exact [i_and n a b] true else
  if Z.eqb op OP_bor then exact [i_or n a b] true else
  if Z.eqb op OP_bxor then exact [i_xor n a b] true else
  if Z.eqb op OP_bnot then exact [i_not n a] true else
  if Z.eqb op OP_inc then exact [wrap n (sgn n a + 1)] true else
  if Z.eqb op OP_dec then exact [wrap n (sgn n a - 1)] true else
  if Z.eqb op OP_lt then exact [b2z (i_lt n a b)] true else
  if Z.eqb op OP_gt then exact [b2z (i_lt n b a)] true else
  if Z.eqb op OP_le then exact [b2z (negb (i_lt n b a))] true else
  if Z.eqb op OP_ge then exact [b2z (negb (i_lt n a b))] true else
  if Z.eqb op OP_eq then exact [b2z (Z.eqb (sgn n a) (sgn n b))] true else
  if Z.eqb op OP_ne then exact [b2z (negb (Z.eqb (sgn n a) (sgn n b)))] true else
  (* native integer of width a (args: width, bits) -> integer<n>: value preserved mod 2^n *)
  if Z.eqb op OP_from_int then exact [wrap n (int_decode true a b)] true else
  if Z.eqb op OP_from_uint then exact [wrap n (int_decode false a b)] true else
  (* native float -> integer<n>: truncate toward zero, then wrap *)
  if Z.eqb op OP_from_f64 then
    match f64_decode a with Fin s q => exact [wrap n (let t := Qnum q / Zpos (Qden q) in if s then - t else t)] true
                          | _ => mkV true res false end else
  if Z.eqb op OP_from_f32 then
    match f32_decode a with Fin s q => exact [wrap n (let t := Qnum q / Zpos (Qden q) in if s then - t else t)] true
                          | _ => mkV true res false end else
  (* integer<n> -> native integer of width a (args: width, bits): judged when the value fits *)
  if Z.eqb op OP_to_int then
    (let z := sgn n b in if Z.leb (- 2^(a-1)) z && Z.ltb z (2^(a-1)) then exact [wrap a z] true else mkV true res false) else
  if Z.eqb op OP_to_f64 then judge_to_f64 (num_of_Q (inject_Z (sgn n a))) res else
  if Z.eqb op OP_to_f32 then judge_to_f32 (num_of_Q (inject_Z (sgn n a))) res else
  (* integer<n> -> integer<m>: cfg = [n; m] *)
  if Z.eqb op OP_conv then exact [i_conv n (nth0 cfg 1) a] true else
  if Z.eqb op OP_to_f64_rt then (if Z.leb n 53 then exact [wrap n a] true else mkV true res false) else
  mkV false [] false.
