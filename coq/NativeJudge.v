(* Shared judging of read-back to a native IEEE type: exact value when the target can hold it
   (otherwise the property does not constrain the result), NaN as a class. *)
From Coq Require Import ZArith QArith List Bool.
From UV Require Import Num Verdict.
Import ListNotations.
Local Open Scope Z_scope.

Definition judge_to_ieee (eb fb : Z) (x : num) (res : list Z) : verdict :=
  match x with
  | NaN => mkV (match ieee_decode eb fb (nth0 res 0) with NaN => true | _ => false end) [ieee_encode eb fb NaN] true
  | _ => if ieee_exact eb fb x then (let e := [ieee_encode eb fb x] in mkV (list_eqb e res) e true)
         else mkV true res false
  end.
Definition judge_to_f64 := judge_to_ieee 11 52.
Definition judge_to_f32 := judge_to_ieee 8 23.
