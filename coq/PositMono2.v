From Coq Require Import ZArith QArith Lia Bool List.
From UV Require Import PositMono.
Local Open Scope Z_scope.

(* --- upper half ------------------------------------------------------- *)
(* p in [2^(L-1), 2^L - 1]; q1 = 2^L - p in [1, 2^(L-1)] *)
Lemma Yhigh_bounds L p : 1 <= L -> 2^(L-1) <= p -> p < 2^L ->
  let q1 := 2^L - p in
  (q1 = 1 /\ Yhigh L p = (L-1) * 2^L) \/
  (2 <= q1 /\ let r := Z.log2 (q1 - 1) in
     0 <= r /\ r <= L - 2 /\ (L - r - 2) * 2^L <= Yhigh L p /\ Yhigh L p < (L - r - 1) * 2^L).
Proof.
  intros HL Hlo Hhi q1.
  assert (E1 : 2^L = 2 * 2^(L-1)).
  { replace L with (Z.succ (L-1)) at 1 by lia. apply Z.pow_succ_r; lia. }
  assert (Hq : 1 <= q1 <= 2^(L-1)) by (unfold q1; lia).
  unfold Yhigh. fold q1.
  destruct (Z.eqb_spec q1 1) as [Heq|Hne]; [left; auto|right].
  split; [lia|]. cbv zeta.
  set (r := Z.log2 (q1 - 1)).
  assert (Hpos : 0 < q1 - 1) by lia.
  assert (Hr := Z.log2_spec (q1-1) Hpos). fold r in Hr.
  assert (Hr0 : 0 <= r) by apply Z.log2_nonneg.
  assert (HrL : r <= L - 2).
  { assert (r < L - 1); [|lia]. apply Z.log2_lt_pow2; lia. }
  assert (E : 2^L = 2^r * 2^(L-r)). { rewrite <- pow2_split by lia. f_equal; lia. }
  assert (P := pow2_pos (L-r) ltac:(lia)).
  assert (E2 : 2^(Z.succ r) = 2 * 2^r) by (apply Z.pow_succ_r; lia).
  repeat split; try lia.
  - (* (L-r-2)*2^L <= (L-r)*2^L - q1*2^(L-r) : need q1 * 2^(L-r) <= 2 * 2^L = 2*2^r*2^(L-r) ; q1 <= 2^(r+1) *)
    replace ((L - r - 2) * 2^L) with ((L-r)*2^L - 2 * 2^L) by ring. rewrite E at 2. nia.
  - replace ((L - r - 1) * 2^L) with ((L-r)*2^L - 2^L) by ring. rewrite E at 2. nia.
Qed.

Lemma Yhigh_mono L p p' : 1 <= L -> 2^(L-1) <= p -> p < p' -> p' < 2^L -> Yhigh L p < Yhigh L p'.
Proof.
  intros HL Hlo Hpp Hhi.
  assert (PL := pow2_pos L ltac:(lia)).
  destruct (Yhigh_bounds L p HL ltac:(lia) ltac:(lia)) as [[A1 A2]|(A0 & A1 & A2 & A3 & A4)]; [lia|].
  destruct (Yhigh_bounds L p' HL ltac:(lia) ltac:(lia)) as [[B1 B2]|(B0 & B1 & B2 & B3 & B4)].
  - (* p' is maxpos *) rewrite B2. eapply Z.lt_le_trans; [exact A4|]. nia.
  - set (r := Z.log2 (2^L - p - 1)) in *. set (r' := Z.log2 (2^L - p' - 1)) in *.
    assert (Hle : r' <= r) by (apply Z.log2_le_mono; lia).
    destruct (Z.eq_dec r r') as [E|NE].
    + unfold Yhigh.
      destruct (Z.eqb_spec (2^L - p) 1); [lia|]. destruct (Z.eqb_spec (2^L - p') 1); [lia|].
      fold r r'. rewrite <- E.
      assert (P := pow2_pos (L - r) ltac:(lia)). nia.
    + assert (r' + 1 <= r) by lia.
      eapply Z.lt_le_trans; [exact A4|]. eapply Z.le_trans; [|exact B3]. nia.
Qed.

Lemma Y_mono L p p' : 1 <= L -> 0 < p -> p < p' -> p' < 2^L -> Y L p < Y L p'.
Proof.
  intros HL Hp Hpp Hhi. unfold Y.
  assert (PL := pow2_pos L ltac:(lia)).
  destruct (Z.ltb_spec p (2^(L-1))); destruct (Z.ltb_spec p' (2^(L-1))).
  - apply Ylow_mono; lia.
  - (* low < 0 <= high *)
    destruct (Ylow_bounds L p ltac:(lia) ltac:(lia) HL) as (A1 & A2 & A3 & A4).
    destruct (Yhigh_bounds L p' HL ltac:(lia) ltac:(lia)) as [[B1 B2]|(B0 & B1 & B2 & B3 & B4)].
    + rewrite B2. eapply Z.lt_le_trans; [exact A4|]. nia.
    + eapply Z.lt_le_trans; [exact A4|]. eapply Z.le_trans; [|exact B3]. nia.
  - lia.
  - apply Yhigh_mono; lia.
Qed.


(* --- value from Y ------------------------------------------------------ *)
Definition pow2Q (e : Z) : Q := if Z.leb 0 e then inject_Z (2^e) else / inject_Z (2^(-e)).
Definition pos_val (n es p : Z) : Q :=
  let L := n - 1 in
  let X := Y L p * 2^es in
  let s := X / 2^L in let f := X mod 2^L in
  (pow2Q s * (inject_Z (2^L + f) / inject_Z (2^L)))%Q.

(* cross-check against the bit-scan prototype on all configs n<=9 *)
Fixpoint run_len (fuel : nat) (p : Z) (pos : Z) (b : bool) : Z :=
  match fuel with O => 0 | S f => if Z.ltb pos 0 then 0 else
    if Bool.eqb (Z.testbit p pos) b then 1 + run_len f p (pos-1) b else 0 end.
Definition pos_val_scan (n es p : Z) : Q :=
  let top := n - 2 in let b := Z.testbit p top in
  let m := run_len (Z.to_nat n) p top b in
  let k := if b then m - 1 else - m in
  let rem := Z.max 0 (n - 1 - m - 1) in
  let body := Z.land p (Z.ones rem) in
  let ext := Z.shiftl body es in
  let e := Z.shiftr ext rem in let f := Z.land ext (Z.ones rem) in
  ((pow2Q (k * 2^es + e)) * (inject_Z (2^rem + f) / inject_Z (2^rem)))%Q.
Definition range (n : Z) : list Z := map Z.of_nat (seq 0 (Z.to_nat n)).
Definition agree n es := forallb (fun p => Qeq_bool (pos_val n es (p+1)) (pos_val_scan n es (p+1))) (range (2^(n-1)-1)).
