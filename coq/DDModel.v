(* dd / qd (C10): acceptance of a result against the exact value in rationals.
   A dd is hi + lo, a qd the sum of four doubles.  normalised: each component is the double nearest to the sum of
   itself and the following ones (so every tail is at most half an ulp of its predecessor);
   accurate: |result - exact| <= K * 2^-106 * |exact| (2^-212 for qd). *)
From Coq Require Import ZArith QArith Qabs Lia Bool List.
From UV Require Import PositMono2 Num Ops Verdict EFTModel.
Import ListNotations.
Local Open Scope Z_scope.

Fixpoint qsum (l : list Z) : option Q :=
  match l with
  | [] => Some 0%Q
  | b :: r => match dq b, qsum r with Some x, Some y => Some (Qred (x + y)) | _, _ => None end
  end.
(* ulp of a non-zero double value: 2^(floor(log2 |x|) - 52) (normal range) *)
Definition ulp64 (x : Q) : Q := pow2Q (Z.max (-1074) (qlog2 (Qnum (Qabs x)) (Zpos (Qden x)) - 52)).
(* normalised: every component is at most half an ulp of the previous one (a zero is followed by zeros) *)
Fixpoint dd_normalised (l : list Z) : bool :=
  match l with
  | a :: ((b :: _) as r) =>
      match dq a, dq b with
      | Some x, Some y => (if Qeq_bool x 0 then Qeq_bool y 0 else Qle_bool (Qabs y * (2#1)) (ulp64 x)) && dd_normalised r
      | _, _ => false
      end
  | _ => true
  end.
Definition rel_ok (k : Z) (p : Z) (res exact : Q) : bool :=
  Qle_bool (Qabs (res - exact) * inject_Z (2^p)) (inject_Z k * Qabs exact).
(* sqrt: |r - sqrt x| <= eps * sqrt x  <=>  (for r >= 0)  r^2 within x * (1 -+ eps)^2 *)
Definition sqrt_rel_ok (k : Z) (p : Z) (r x : Q) : bool :=
  let eps := (inject_Z k / inject_Z (2^p))%Q in
  Qle_bool 0 r && Qle_bool (x * ((1 - eps) * (1 - eps))) (r * r) && Qle_bool (r * r) (x * ((1 + eps) * (1 + eps))).

(* fam 8: dd (2 components), fam 9: qd (4 components); args = components of a then of b *)
(* C03: construction / assignment from a native value: exact whenever the source is representable -- every 64-bit integer, float and
   double is (53 < 106 bits) -- i.e. the components must sum exactly to the source and be normalised *)
Definition judge_dd_from (ncomp : nat) (op : Z) (args res : list Z) : verdict :=
  let src : option Q :=
    if Z.eqb op OP_from_int then Some (inject_Z (int_decode true (nth0 args 0) (nth0 args 1))) else
    if Z.eqb op OP_from_uint then Some (inject_Z (int_decode false (nth0 args 0) (nth0 args 1))) else
    match (if Z.eqb op OP_from_f64 then f64_decode (nth0 args 0) else f32_decode (nth0 args 0)) with
    | Fin s q => Some (if s then (- q)%Q else q)
    | _ => None
    end in
  match src, qsum res with
  | Some x, Some r => mkV (Nat.eqb (length res) ncomp && dd_normalised res && Qeq_bool r x) [] true
  | Some _, None => mkV false [] true
  | None, _ => mkV true res false
  end.

Definition judge_dd (ncomp : nat) (p : Z) (cfg : list Z) (op : Z) (args res : list Z) : verdict :=
  if Z.eqb op OP_from_int || Z.eqb op OP_from_uint || Z.eqb op OP_from_f64 || Z.eqb op OP_from_f32 then judge_dd_from ncomp op args res else
  let skip := mkV true res false in
  let a := firstn ncomp args in let b := firstn ncomp (skipn ncomp args) in
  match qsum a, qsum b, qsum res with
  | Some x, Some y, Some r =>
      let inrange (v : Q) := Qeq_bool v 0 || (Qle_bool (inject_Z 1 / inject_Z (2^900)) (Qabs v) && Qle_bool (Qabs v) (inject_Z (2^1000))) in
      let fin (exact0 : Q) (k : Z) :=
        let exact := Qred exact0 in
        if negb (inrange exact) then skip else
        mkV (Nat.eqb (length res) ncomp && dd_normalised res && rel_ok k p r exact) [] true in
      if negb (dd_normalised a && dd_normalised b) then skip else
      if Z.eqb op OP_add then fin (x + y)%Q 4 else
      if Z.eqb op OP_sub then fin (x - y)%Q 4 else
      if Z.eqb op OP_mul then fin (x * y)%Q 8 else
      if Z.eqb op OP_div then (if Qeq_bool y 0 then skip else fin (x / y)%Q 16) else
      if Z.eqb op OP_sqrt then
        (if Qlt_bool x 0 then skip else
         mkV (Nat.eqb (length res) ncomp && dd_normalised res && (if Qeq_bool x 0 then Qeq_bool r 0 else sqrt_rel_ok 32 p r x)) [] true) else
      if Z.eqb op OP_to_f64 then   (* double(dd): the double nearest to the represented value *)
        mkV (list_eqb [rn64 x] res || same_val (nth0 res 0) (match dq (rn64 x) with Some v => v | None => 0%Q end)) [rn64 x] true else
      if Z.eqb op OP_lt then mkV (list_eqb [b2z (Qlt_bool x y)] res) [b2z (Qlt_bool x y)] true else
      if Z.eqb op OP_eq then mkV (list_eqb [b2z (Qeq_bool x y)] res) [b2z (Qeq_bool x y)] true else
      if Z.eqb op OP_le then mkV (list_eqb [b2z (Qle_bool x y)] res) [b2z (Qle_bool x y)] true else
      mkV false [] false
  | Some x, Some y, None =>
      let inrange (v : Q) := Qeq_bool v 0 || (Qle_bool (inject_Z 1 / inject_Z (2^900)) (Qabs v) && Qle_bool (Qabs v) (inject_Z (2^1000))) in
      let exact := if Z.eqb op OP_add then Some (x + y)%Q else if Z.eqb op OP_sub then Some (x - y)%Q else
                   if Z.eqb op OP_mul then Some (x * y)%Q else if Z.eqb op OP_div then (if Qeq_bool y 0 then None else Some (x / y)%Q) else
                   if Z.eqb op OP_sqrt then (if Qlt_bool x 0 then None else Some x) else Some 0%Q in
      if Z.eqb op OP_add || Z.eqb op OP_sub || Z.eqb op OP_mul || Z.eqb op OP_div || Z.eqb op OP_sqrt then
        match exact with
        | Some v => if inrange v && dd_normalised a && dd_normalised b then mkV false [] true else skip
        | None => skip
        end
      else if Z.eqb op OP_lt || Z.eqb op OP_eq || Z.eqb op OP_le || Z.eqb op OP_to_f64 then
                              (match qsum a, qsum b with
                               | Some x, Some y =>
                                   if Z.eqb op OP_to_f64 then mkV (list_eqb [rn64 x] res) [rn64 x] true else
                                   let e := if Z.eqb op OP_lt then Qlt_bool x y else if Z.eqb op OP_eq then Qeq_bool x y else Qle_bool x y in
                                   mkV (list_eqb [b2z e] res) [b2z e] true
                               | _, _ => skip end)
                            else mkV false [] true      (* finite operands, non-finite result inside the range *)
  | _, _, _ => skip
  end.
