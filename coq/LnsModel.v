(* Executable model of lns<n, r, bt, Behavior>: sign bit + (n-1)-bit two's-complement
   fixed-point exponent E with r fraction bits; value = +-2^(E/2^r).
   zero = 0.10...0, NaN = 1.10...0 (the most negative exponent pattern is reserved). *)
From Coq Require Import ZArith QArith Lia Bool List.
From UV Require Import PositMono2 Num Ops Verdict.
Import ListNotations.
Local Open Scope Z_scope.

Inductive lcls := LNaN | LZero | LVal (s : bool) (E : Z).

Definition l_special (n : Z) : Z := - 2^(n-2).            (* reserved exponent *)
Definition l_emax (n : Z) : Z := 2^(n-2) - 1.
Definition l_emin (n : Z) : Z := - 2^(n-2) + 1.
Definition l_decode (n bits : Z) : lcls :=
  let s := Z.testbit bits (n-1) in
  let E := sgn (n-1) (bits mod 2^(n-1)) in
  if Z.eqb E (l_special n) then (if s then LNaN else LZero) else LVal s E.
Definition l_encode (n : Z) (c : lcls) : Z :=
  match c with
  | LNaN => 2^(n-1) + 2^(n-2)
  | LZero => 2^(n-2)
  | LVal s E => (if s then 2^(n-1) else 0) + wrap (n-1) E
  end.

(* exponent range rule: Saturating (sat=true): clamp to maxpos above, flush to zero at or below the
   reserved pattern; Wrapping: reduce modulo 2^(n-1) *)
Definition l_fit (n : Z) (sat : bool) (s : bool) (E : Z) : Z :=
  if sat then
    if Z.leb (l_emax n) E then l_encode n (LVal s (l_emax n))
    else if Z.leb E (l_special n) then l_encode n LZero
    else l_encode n (LVal s E)
  else (if s then 2^(n-1) else 0) + wrap (n-1) E.

Definition l_mul (n : Z) (sat : bool) (a b : Z) : Z :=
  match l_decode n a, l_decode n b with
  | LNaN, _ | _, LNaN => l_encode n LNaN
  | LZero, _ | _, LZero => l_encode n LZero
  | LVal sa Ea, LVal sb Eb => l_fit n sat (xorb sa sb) (Ea + Eb)
  end.
Definition l_div (n : Z) (sat : bool) (a b : Z) : Z :=
  match l_decode n a, l_decode n b with
  | LNaN, _ | _, LNaN => l_encode n LNaN
  | _, LZero => l_encode n LNaN
  | LZero, _ => l_encode n LZero
  | LVal sa Ea, LVal sb Eb => l_fit n sat (xorb sa sb) (Ea - Eb)
  end.
Definition l_neg (n a : Z) : Z :=
  match l_decode n a with
  | LVal s E => l_encode n (LVal (negb s) E)
  | _ => a
  end.

(* ---- certified enclosures of 2^(m/2^r): (lo, hi) with lo <= 2^(m/2^r) <= hi ---- *)
Definition PREC : Z := 72.
(* square-root enclosure of an enclosure scaled by 2^PREC *)
Definition sqrt_enc (e : Z * Z) : Z * Z :=
  (Z.sqrt (fst e * 2^PREC), Z.sqrt (snd e * 2^PREC) + 1).
Definition mul_enc (e f : Z * Z) : Z * Z :=
  ((fst e * fst f) / 2^PREC, (snd e * snd f) / 2^PREC + 1).
(* roots r = [enc 2^(1/2); enc 2^(1/4); ...; enc 2^(1/2^r)] *)
Fixpoint mk_roots (r : nat) (root : Z * Z) : list (Z * Z) :=
  match r with
  | O => []
  | S r' => let root' := sqrt_enc root in root' :: mk_roots r' root'
  end.
(* product of the roots selected by the bits of j (bit r-1 selects 2^(1/2), bit 0 selects 2^(1/2^r)) *)
Fixpoint frac_enc (roots : list (Z * Z)) (j : Z) (bitpos : Z) (acc : Z * Z) : Z * Z :=
  match roots with
  | [] => acc
  | rt :: rest => frac_enc rest j (bitpos - 1) (if Z.testbit j bitpos then mul_enc acc rt else acc)
  end.
Definition lns_roots (r : Z) : list (Z * Z) := mk_roots (Z.to_nat r) (2 * 2^PREC, 2 * 2^PREC).
(* enclosure of 2^(m/2^r) as rationals *)
(* Exponents far outside the window that matters (all comparisons are against quantities in (0, 2])
   are clamped: below the window the enclosure [0, 2^-(PREC+8)] is still valid; above it the pair
   (2^8, 2^9) is only a lower bound, which is all the acceptance test needs there (it is compared with
   numbers <= 2). *)
Definition pow2_enc_r (roots : list (Z * Z)) (r m : Z) : Q * Q :=
  let i := m / 2^r in let j := m mod 2^r in
  if Z.ltb i (- (PREC + 8)) then (0%Q, pow2Q (- (PREC + 8))) else
  if Z.ltb 8 i then (pow2Q 8, pow2Q 9) else
  let e := frac_enc roots j (r - 1) (2^PREC, 2^PREC) in
  ((inject_Z (fst e) * pow2Q (i - PREC))%Q, (inject_Z (snd e) * pow2Q (i - PREC))%Q).
Definition pow2_enc (r m : Z) : Q * Q := pow2_enc_r (lns_roots r) r m.

(* acceptance of an add/sub result (sub: caller flips the sign of b).  Returns true unless the
   result is *certainly* not one of the two lns values bracketing the exact sum. *)
Definition l_add_accept (n r : Z) (sat : bool) (a b c : Z) : bool :=
  match l_decode n a, l_decode n b with
  | LNaN, _ | _, LNaN => Z.eqb c (l_encode n LNaN)
  | LZero, LZero => Z.eqb c (l_encode n LZero)
  | LZero, LVal s E => Z.eqb c (l_encode n (LVal s E))
  | LVal s E, LZero => Z.eqb c (l_encode n (LVal s E))
  | LVal sa Ea, LVal sb Eb =>
      if Z.eqb Ea Eb && negb (Bool.eqb sa sb) then Z.eqb c (l_encode n LZero) else
      let roots := lns_roots r in let pow2_enc := pow2_enc_r roots in
      let big := Z.max Ea Eb in let small := Z.min Ea Eb in
      let sres := if Z.ltb Eb Ea then sa else if Z.ltb Ea Eb then sb else sa in
      let same := Bool.eqb sa sb in
      (* |x| / 2^(big/2^r) = 1 +- 2^((small-big)/2^r), enclosure [xlo, xhi] *)
      let d := pow2_enc r (small - big) in
      let xlo := if same then (1 + fst d)%Q else (1 - snd d)%Q in
      let xhi := if same then (1 + snd d)%Q else (1 - fst d)%Q in
      match l_decode n c with
      | LNaN => negb sat        (* a wrapped out-of-range sum may land on any pattern *)
      | LZero =>   (* acceptable only if |x| may be below minpos (Saturating) *)
          if sat then Qle_bool xlo (snd (pow2_enc r (l_emin n - big))) else true
      | LVal sc Ec =>
          let up_ok := if Z.eqb Ec (l_emax n) then true
                       else negb (Qle_bool (snd (pow2_enc r (Ec + 1 - big))) xlo) in
          let lo_ok := if Z.eqb Ec (l_emin n) then true
                       else negb (Qle_bool xhi (fst (pow2_enc r (Ec - 1 - big)))) in
          if sat then Bool.eqb sc sres && up_ok && lo_ok
          else
            (* Wrapping: judged only when the exact sum is certainly inside the exponent range *)
            let inrange := negb (Qle_bool (fst (pow2_enc r (l_emax n - big))) xhi)
                           && negb (Qle_bool xlo (snd (pow2_enc r (l_emin n - big)))) in
            if inrange then Bool.eqb sc sres && up_ok && lo_ok else true
      end
  end.


(* ---- order: by (sign class, exponent); negative values order by decreasing exponent; NaN is unordered and unequal to everything ---- *)
Definition l_key (c : lcls) : option (Z * Z) :=
  match c with
  | LNaN => None
  | LZero => Some (0, 0)
  | LVal s E => Some (if s then (-1, - E) else (1, E))
  end.
Definition key_lt (p q : Z * Z) : bool := Z.ltb (fst p) (fst q) || (Z.eqb (fst p) (fst q) && Z.ltb (snd p) (snd q)).
Definition key_eq (p q : Z * Z) : bool := Z.eqb (fst p) (fst q) && Z.eqb (snd p) (snd q).
Definition l_rel (n : Z) (f : Z * Z -> Z * Z -> bool) (a b : Z) : bool :=
  match l_key (l_decode n a), l_key (l_decode n b) with Some p, Some q => f p q | _, _ => false end.
Definition l_lt n := l_rel n key_lt.
Definition l_eq n := l_rel n key_eq.
Definition l_le n := l_rel n (fun p q => key_lt p q || key_eq p q).
Definition l_gt n a b := l_lt n b a.
Definition l_ge n a b := l_le n b a.
Definition l_ne n a b := negb (l_eq n a b).


(* ---- conversion from a native value (C03): "the nearest value in the logarithmic domain, or its neighbour when the source is within a
   few double ulps of a log-domain midpoint".  x = 2^i0 * x' with x' in [1,2); the midpoints around an exponent Ec are
   2^((2 Ec -+ 1)/2^(r+1)); tolerance eps = (|i0| + 2) 2^-50 (the library takes log2 in double precision: the error of the logarithm in
   units of x grows with |log2 x|).  Like l_add_accept this only rejects what is certainly wrong (certified enclosures). ---- *)
Definition l_conv_accept (n r : Z) (sat : bool) (x : num) (c : Z) : bool :=
  match x with
  | NaN => Z.eqb c (l_encode n LNaN)
  | Inf s => Z.eqb c (l_encode n (LVal s (l_emax n))) || Z.eqb c (l_encode n LNaN)
  | Fin s q =>
      if Qeq_bool q 0 then Z.eqb c (l_encode n LZero) else
      let r' := r + 1 in let roots := lns_roots r' in
      let i0 := qlog2 (Qnum q) (Zpos (Qden q)) in
      let x' := (q * pow2Q (- i0))%Q in
      let eps := (inject_Z (Z.abs i0 + 2) * pow2Q (-50))%Q in
      let xup := (x' * (1 + eps))%Q in let xdn := (x' * (1 - eps))%Q in
      let P (m : Z) := pow2_enc_r roots r' (m - i0 * 2^r') in
      (* certainly below / above a midpoint *)
      let below (m : Z) := negb (Qle_bool (fst (P m)) xup) in        (* x (1+eps) < lo(P m) *)
      let above (m : Z) := negb (Qle_bool xdn (snd (P m))) in        (* x (1-eps) > hi(P m) *)
      let inrange := negb (below (2 * l_emin n - 1)) && negb (above (2 * l_emax n + 1)) in
      match l_decode n c with
      | LNaN => negb sat && negb inrange
      | LZero => if sat then negb (above (2 * l_emin n - 1)) else negb inrange
      | LVal sc Ec =>
          let ok := Bool.eqb sc s && negb (below (2 * Ec - 1)) && (Z.eqb Ec (l_emax n) && sat || negb (above (2 * Ec + 1))) in
          if sat then ok else (if inrange && negb (above (2 * l_emax n - 1)) && negb (below (2 * l_emin n + 1)) then ok else true)
      end
  end.

(* ---- lns -> lns (C15): the source value is 2^(E1/2^r1) exactly, so its logarithm is the rational E1/2^r1 and the target exponent is
   that number rounded to a multiple of 2^-r2 (the library goes through double, so at an exact tie either neighbour is accepted),
   followed by the target's range rule (strictly inside the range: a tie at the very top may round out of it, where Wrapping is not judged).  num/den = E1 2^r2 / 2^r1 in target units. ---- *)
Definition l2l_accept (n1 r1 a n2 r2 : Z) (sat : bool) (c : Z) : bool :=
  match l_decode n1 a with
  | LNaN => Z.eqb c (l_encode n2 LNaN)
  | LZero => Z.eqb c (l_encode n2 LZero)
  | LVal s E1 =>
      let num := E1 * 2 ^ r2 in let den := 2 ^ r1 in
      let near (Ec : Z) := Z.leb (Z.abs (2 * (Ec * den - num))) den in
      let inrange := Z.ltb ((2 * l_emin n2 - 1) * den) (2 * num) && Z.ltb (2 * num) ((2 * l_emax n2 + 1) * den) in
      match l_decode n2 c with
      | LNaN => negb sat && negb inrange
      | LZero => if sat then Z.leb (2 * num) ((2 * l_emin n2 - 1) * den) else negb inrange
      | LVal sc Ec =>
          let ok := Bool.eqb sc s && Z.leb (l_emin n2) Ec && Z.leb Ec (l_emax n2) &&
                    (near Ec || (sat && Z.eqb Ec (l_emax n2) && Z.leb (l_emax n2 * den) num)) in
          if sat then ok else (if inrange then ok else true)
      end
  end.

Definition judge_lns (cfg : list Z) (op : Z) (args res : list Z) : verdict :=
  let n := nth0 cfg 0 in let r := nth0 cfg 1 in let sat := Z.eqb (nth0 cfg 2) 1 in
  let a := nth0 args 0 in let b := nth0 args 1 in let c := nth0 res 0 in
  let exact (e : list Z) (nt : bool) := mkV (list_eqb e res) e nt in
  let special := match l_decode n a, l_decode n b with LVal _ _, LVal _ _ => false | _, _ => true end in
  let ovf (E : Z) := Z.leb (l_emax n) E || Z.leb E (l_special n) in
  if Z.eqb op OP_mul then exact [l_mul n sat a b]
      (special || match l_decode n a, l_decode n b with LVal _ Ea, LVal _ Eb => ovf (Ea + Eb) | _, _ => false end) else
  if Z.eqb op OP_div then exact [l_div n sat a b]
      (special || match l_decode n a, l_decode n b with LVal _ Ea, LVal _ Eb => ovf (Ea - Eb) | _, _ => false end) else
  if Z.eqb op OP_neg then exact [l_neg n a] true else
  let conv (x : num) := mkV (Z.eqb (Z.of_nat (length res)) 1 && l_conv_accept n r sat x c) [] true in
  if Z.eqb op OP_from_f64 then conv (f64_decode a) else if Z.eqb op OP_from_f32 then conv (f32_decode a) else
  if Z.eqb op OP_from_int then conv (num_of_Q (inject_Z (int_decode true a b))) else
  if Z.eqb op OP_from_uint then conv (num_of_Q (inject_Z (int_decode false a b))) else
  let rel (v : bool) := exact [if v then 1 else 0] true in
  if Z.eqb op OP_eq then rel (l_eq n a b) else if Z.eqb op OP_ne then rel (l_ne n a b) else
  if Z.eqb op OP_lt then rel (l_lt n a b) else if Z.eqb op OP_le then rel (l_le n a b) else
  if Z.eqb op OP_gt then rel (l_gt n a b) else if Z.eqb op OP_ge then rel (l_ge n a b) else
  if Z.eqb op OP_conv then     (* lns -> lns: cfg = source cfg (4 entries) ++ target cfg *)
    mkV (Z.eqb (Z.of_nat (length res)) 1 && l2l_accept n r a (nth0 cfg 4) (nth0 cfg 5) (Z.eqb (nth0 cfg 6) 1) c) [] true else
  if Z.eqb op OP_add then mkV (Z.eqb (Z.of_nat (length res)) 1 && l_add_accept n r sat a b c) [] true else
  if Z.eqb op OP_sub then mkV (Z.eqb (Z.of_nat (length res)) 1 && l_add_accept n r sat a (l_neg n b) c) [] true else
  mkV false [] false.
