(* Extraction: ExtrOcamlBasic only; Z, positive, Q stay Coq datatypes. *)
Require Extraction.
Require Import ExtrOcamlBasic.
From UV Require Import Verdict Judge.
Extraction Language OCaml.
Extraction "model.ml" judge v_ok v_model v_nontrivial.
