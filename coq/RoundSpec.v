From Coq Require Import ZArith QArith Lia Lqa Bool.
Local Open Scope Z_scope.

(* Generic greedy floor search over a strictly increasing valuation. *)
Section Greedy.
Variable val : Z -> Q.
Variable N : Z.            (* indices 0..N *)
Hypothesis val_mono : forall i j, 0 <= i -> i < j -> j <= N -> (val i < val j)%Q.

Fixpoint floor_idx (i : nat) (acc : Z) (x : Q) : Z :=
  match i with
  | O => acc
  | S j => let c := acc + 2^(Z.of_nat j) in
           if andb (Z.leb c N) (Qle_bool (val c) x) then floor_idx j c x
           else floor_idx j acc x
  end.

Lemma val_mono_le : forall i j, 0 <= i -> i <= j -> j <= N -> (val i <= val j)%Q.
Proof.
  intros i j Hi Hij Hj. destruct (Z.eq_dec i j) as [->|Hne].
  - apply Qle_refl.
  - apply Qlt_le_weak. apply val_mono; lia.
Qed.

(* invariant: val acc <= x, and for all k in (acc + 2^i - 1, N], ... we state the
   result characterisation directly *)
Lemma floor_idx_spec : forall i acc x,
  0 <= acc -> acc <= N -> (val acc <= x)%Q ->
  (forall k, acc + 2^(Z.of_nat i) <= k -> k <= N -> (x < val k)%Q) ->
  let u := floor_idx i acc x in
  acc <= u /\ u <= N /\ (val u <= x)%Q /\ (forall k, u < k -> k <= N -> (x < val k)%Q).
Proof.
  induction i as [|j IH]; intros acc x Hacc0 HaccN Hle Hup; cbn [floor_idx].
  - cbn in Hup. repeat split; try lia; auto. intros k Hk HkN. apply Hup; lia.
  - cbv zeta.
    assert (Hpow : 2 ^ Z.of_nat (S j) = 2 * 2 ^ Z.of_nat j).
    { rewrite Nat2Z.inj_succ, Z.pow_succ_r by lia. reflexivity. }
    assert (Hpos : 0 < 2 ^ Z.of_nat j) by (apply Z.pow_pos_nonneg; lia).
    destruct (Z.leb_spec (acc + 2 ^ Z.of_nat j) N) as [HcN|HcN]; cbn [andb].
    + destruct (Qle_bool (val (acc + 2 ^ Z.of_nat j)) x) eqn:Hq.
      * apply Qle_bool_iff in Hq.
        specialize (IH (acc + 2 ^ Z.of_nat j) x ltac:(lia) HcN Hq).
        destruct IH as (H1 & H2 & H3 & H4).
        { intros k Hk HkN. apply Hup; lia. }
        repeat split; auto; lia.
      * assert (Hlt : (x < val (acc + 2 ^ Z.of_nat j))%Q).
        { apply Qnot_le_lt. intro Hc. apply Qle_bool_iff in Hc. congruence. }
        apply IH; auto.
        intros k Hk HkN. eapply Qlt_le_trans; [exact Hlt|].
        apply val_mono_le; lia.
    + apply IH; auto. intros k Hk HkN. lia.
Qed.

Theorem floor_idx_correct : forall x,
  0 <= N -> (val 0 <= x)%Q ->
  let u := floor_idx (Z.to_nat (Z.log2_up (N+1))) 0 x in
  0 <= u <= N /\ (val u <= x)%Q /\ (forall k, u < k -> k <= N -> (x < val k)%Q).
Proof.
  intros x HN H0 u.
  destruct (floor_idx_spec (Z.to_nat (Z.log2_up (N+1))) 0 x (Z.le_refl 0) HN H0) as (H1 & H2 & H3 & H4).
  - intros k Hk HkN. exfalso.
    rewrite Z2Nat.id in Hk by apply Z.log2_up_nonneg.
    assert (N + 1 <= 2 ^ Z.log2_up (N+1)) by (apply Z.log2_log2_up_spec; lia). lia.
  - repeat split; auto.
Qed.

Lemma floor_idx_compat : forall i acc x y, (x == y)%Q -> floor_idx i acc x = floor_idx i acc y.
Proof.
  induction i as [|j IH]; intros acc x y E; cbn [floor_idx]; [reflexivity|].
  cbv zeta. rewrite (Qleb_comp _ _ (Qeq_refl (val (acc + 2 ^ Z.of_nat j))) _ _ E).
  destruct (_ && _); apply IH; exact E.
Qed.
End Greedy.
