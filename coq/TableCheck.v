(* Checkers for the generated tables (Tables.v): every entry against the model. *)
From Coq Require Import ZArith QArith List Bool.
From UV Require Import PositMono2 PositSpec Num PositModel PositFast SqrtModel.
Import ListNotations.
Local Open Scope Z_scope.

Definition tbl_binary_ok (n : Z) (f : Z -> Z -> Z) (tbl : list Z) : bool :=
  Z.eqb (Z.of_nat (length tbl)) (2^n * 2^n) &&
  forallb (fun i => forallb (fun j => Z.eqb (nth (Z.to_nat (i * 2^n + j)) tbl (-1)) (f i j)) (range (2^n))) (range (2^n)).
Definition tbl_unary_ok (cnt : Z) (f : Z -> Z) (tbl : list Z) : bool :=
  Z.eqb (Z.of_nat (length tbl)) cnt &&
  forallb (fun i => Z.eqb (nth (Z.to_nat i) tbl (-1)) (f i)) (range cnt).
(* first failing index of a binary table, for the replay *)
Fixpoint first_bad (n : Z) (f : Z -> Z -> Z) (tbl : list Z) (k : nat) (idx : Z) : option (Z * Z * Z * Z) :=
  match k with
  | O => None
  | S k' => let i := idx / 2^n in let j := idx mod 2^n in
            let v := nth (Z.to_nat idx) tbl (-1) in
            if Z.eqb v (f i j) then first_bad n f tbl k' (idx + 1) else Some (i, j, v, f i j)
  end.
