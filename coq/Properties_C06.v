(* C06 -- comparisons, stepping and extremes agree with the real order of the value set.
   Statements only.  Models: PositModel.v, FixpntModel.v, IntegerModel.v, CfloatModel.v. *)
From Coq Require Import ZArith QArith Lia List.
From UV Require Import LimitsModel LnsModel LnsProps PositMono2 PositVal PositSpec Num PositModel PositProps PositOrder FixpntModel IntegerModel IntProps
  CfloatSpec CfloatModel CfloatProps.
Local Open Scope Z_scope.

(* posit: < by value (NaR below everything) is the two's complement order of the encodings, so it is a
   strict total order; == is equality of encodings whatever history produced them *)
Theorem C06_posit_lt_is_encoding_order : forall n es, 2 <= n -> 0 <= es -> forall a b,
  0 <= a < 2^n -> 0 <= b < 2^n -> plt n es a b = Z.ltb (sgn n a) (sgn n b).
Proof. exact plt_is_bits_order. Qed.
Print Assumptions C06_posit_lt_is_encoding_order.
Theorem C06_posit_eq_is_encoding_eq : forall n es, 2 <= n -> 0 <= es -> forall a b,
  0 <= a < 2^n -> 0 <= b < 2^n -> peq n es a b = Z.eqb a b.
Proof. exact peq_is_bits_eq. Qed.
Print Assumptions C06_posit_eq_is_encoding_eq.
(* ++ / -- move to the adjacent representable value *)
Theorem C06_posit_increment_adjacent : forall n es, 2 <= n -> 0 <= es -> forall a, 0 <= a < 2^n -> pinc_defined n a = true ->
  plt n es a (pinc n a) = true /\ forall b, 0 <= b < 2^n -> plt n es a b = true -> plt n es b (pinc n a) = true -> False.
Proof. exact pinc_adjacent. Qed.
Print Assumptions C06_posit_increment_adjacent.
Theorem C06_posit_decrement_adjacent : forall n es, 2 <= n -> 0 <= es -> forall a, 0 <= a < 2^n -> pdec_defined n a = true ->
  plt n es (pdec n a) a = true /\ forall b, 0 <= b < 2^n -> plt n es (pdec n a) b = true -> plt n es b a = true -> False.
Proof. exact pdec_adjacent. Qed.
Print Assumptions C06_posit_decrement_adjacent.
(* minpos and maxpos are the extremes of the positive values *)
Theorem C06_posit_extremes : forall n es, 2 <= n -> 0 <= es -> forall p, 1 < p -> p < 2^(n-1) - 1 ->
  (pos_val n es 1 < pos_val n es p)%Q /\ (pos_val n es p < pos_val n es (2^(n-1) - 1))%Q.
Proof. intros n es Hn Hes p H1 H2. split; apply pos_val_mono; lia. Qed.
Print Assumptions C06_posit_extremes.

(* fixpnt: < is the order of the values *)
Theorem C06_fixpnt_lt_is_value_order : forall n, 1 <= n -> forall r a b, 0 <= r ->
  fx_lt n a b = true <-> (fx_val n r a < fx_val n r b)%Q.
Proof. intros n _. exact (fx_lt_is_value_order n). Qed.
Print Assumptions C06_fixpnt_lt_is_value_order.

(* cfloat: the finite magnitudes are ordered like their encodings (sign-magnitude), with or without
   subnormals and supernormals; maxpos is the last finite pattern and minpos the first non-zero one *)
Theorem C06_cfloat_magnitude_order : forall n es, 1 <= es -> es + 1 < n -> forall m m', 0 <= m -> m < m' ->
  (cf_val n es m < cf_val n es m')%Q.
Proof. exact cf_val_mono. Qed.
Print Assumptions C06_cfloat_magnitude_order.

(* advertised extremes (std::numeric_limits max / lowest, LimitsModel.v) are the extremes of the value sets: every fixpnt / integer
   encoding reads a value between lowest and max, and those two encodings attain the bounds *)
Theorem C06_fixpnt_integer_limits_are_extremes : forall n, 2 <= n ->
  sgn n (nth 0 (fixpnt_limits n) 0) = 2^(n-1) - 1 /\ sgn n (nth 1 (fixpnt_limits n) 0) = - 2^(n-1) /\
  nth 0 (integer_limits n) 0 = nth 0 (fixpnt_limits n) 0 /\ nth 1 (integer_limits n) 0 = nth 1 (fixpnt_limits n) 0 /\
  forall a, sgn n (nth 1 (fixpnt_limits n) 0) <= sgn n a <= sgn n (nth 0 (fixpnt_limits n) 0).
Proof. exact limits_extremes. Qed.
Print Assumptions C06_fixpnt_integer_limits_are_extremes.
(* posit: max, lowest, min are maxpos, -maxpos, minpos, and every non-NaR encoding orders between lowest and max *)
Theorem C06_posit_limits_are_extremes : forall n es, 2 <= n -> 0 <= es ->
  nth 0 (posit_limits n es) 0 = M n /\ nth 1 (posit_limits n es) 0 = 2^n - M n /\ nth 2 (posit_limits n es) 0 = 1 /\
  forall a, 0 <= a < 2^n -> a <> nar n -> sgn n (2^n - M n) <= sgn n a <= sgn n (M n).
Proof. exact posit_limits_extremes. Qed.
Print Assumptions C06_posit_limits_are_extremes.

Example C06_witness : plt 8 1 0x80 0x81 = true /\ plt 8 1 0xff 0x00 = true /\ plt 8 1 0x01 0x7f = true /\ pinc 8 0xff = 0
  /\ fx_lt 8 0x80 0x7f = true /\ num_lt (Fin true 0) (Fin false 0) = false /\ num_eq (Fin true 0) (Fin false 0) = true
  /\ cf_step (mkCf 8 2 true false false) true 0x80 = Some 0x01.
Proof. vm_compute. repeat split; reflexivity. Qed.

(* lns: the six relations are the strict total order of (sign class, exponent) keys -- negatives by decreasing exponent, zero, positives by
   increasing exponent -- which is the order of the real values +-2^(E/2^r); NaN is unordered *)
Theorem C06_lns_order_is_total : forall p q r : Z * Z,
  LnsModel.key_lt p p = false /\
  (LnsModel.key_lt p q = true -> LnsModel.key_lt q r = true -> LnsModel.key_lt p r = true) /\
  (LnsModel.key_lt p q = true \/ LnsModel.key_eq p q = true \/ LnsModel.key_lt q p = true) /\
  (LnsModel.key_lt p q = true -> LnsModel.key_eq p q = false).
Proof. intros p q r. exact (conj (LnsProps.key_lt_irrefl p) (conj (LnsProps.key_lt_trans p q r) (conj (LnsProps.key_trichotomy p q) (LnsProps.key_lt_not_eq p q)))). Qed.
Print Assumptions C06_lns_order_is_total.
