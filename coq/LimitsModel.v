(* C06 (extremes and spacing): what std::numeric_limits<T>::max / lowest / min / epsilon / denorm_min must be, as encodings,
   derived from the value-set models.  Result list of the OP_limits case: [max; lowest; min; epsilon; denorm_min]
   (integer: [max; lowest]). *)
From Coq Require Import ZArith QArith List Bool.
From UV Require Import Num Verdict PositSpec PositModel CfloatSpec CfloatModel.
Import ListNotations.
Local Open Scope Z_scope.

Definition posit_limits (n es : Z) : list Z :=
  let one := 2^(n-2) in
  [M n; 2^n - M n; 1; psub n es (one + 1) one; 1].

(* cfloat: max = largest finite, lowest = its negation, min = smallest positive NORMAL (C++ meaning of min() for floating types),
   epsilon = next(1) - 1, denorm_min = smallest positive value *)
Definition cfloat_limits (c : cfcfg) : list Z :=
  let fbits := cfb c in
  let one := cf_encode c (Fin false 1) in
  [c_top c; signbit c true + c_top c; 2^fbits; cf_sub c (one + 1) one; (if c_sub c then 1 else 2^fbits)].

Definition fixpnt_limits (n : Z) : list Z := [2^(n-1) - 1; 2^(n-1); 1; 1; 1].
Definition integer_limits (n : Z) : list Z := [2^(n-1) - 1; 2^(n-1)].

Fixpoint list_eqb (a b : list Z) : bool :=
  match a, b with
  | [], [] => true
  | x :: a', y :: b' => Z.eqb x y && list_eqb a' b'
  | _, _ => false
  end.

Definition judge_limits (fam : Z) (cfg res : list Z) : verdict :=
  let n := nth 0 cfg 0 in
  let e := if Z.eqb fam 1 then posit_limits n (nth 1 cfg 0)
           else if Z.eqb fam 2 then cfloat_limits (cfg_of cfg)
           else if Z.eqb fam 3 then fixpnt_limits n
           else if Z.eqb fam 4 then integer_limits n else [] in
  match e with
  | [] => mkV false [] false
  | _ => mkV (list_eqb e res) e true
  end.

(* the extremes are the extremes of the modelled value sets *)
From Coq Require Import Lia.
From UV Require Import IntProps.
Lemma limits_extremes n : 2 <= n ->
  sgn n (nth 0 (fixpnt_limits n) 0) = 2^(n-1) - 1 /\ sgn n (nth 1 (fixpnt_limits n) 0) = - 2^(n-1) /\
  nth 0 (integer_limits n) 0 = nth 0 (fixpnt_limits n) 0 /\ nth 1 (integer_limits n) 0 = nth 1 (fixpnt_limits n) 0 /\
  forall a, sgn n (nth 1 (fixpnt_limits n) 0) <= sgn n a <= sgn n (nth 0 (fixpnt_limits n) 0).
Proof.
  intro Hn. cbn [nth fixpnt_limits integer_limits].
  assert (P : 2^n = 2 * 2^(n-1)) by (apply pow2_S; lia).
  assert (P0 : 0 < 2^(n-1)) by (apply Z.pow_pos_nonneg; lia).
  assert (A : sgn n (2^(n-1) - 1) = 2^(n-1) - 1) by (apply sgn_id; lia).
  assert (B : sgn n (2^(n-1)) = - 2^(n-1)).
  { unfold sgn, wrap. rewrite Z.mod_small by lia. destruct (Z.ltb_spec (2^(n-1)) (2^(n-1))); lia. }
  repeat split; auto.
  - rewrite B. apply sgn_range. lia.
  - rewrite A. assert (H := sgn_range n ltac:(lia) a). lia.
Qed.
Lemma posit_limits_extremes n es : 2 <= n -> 0 <= es ->
  nth 0 (posit_limits n es) 0 = M n /\ nth 1 (posit_limits n es) 0 = 2^n - M n /\ nth 2 (posit_limits n es) 0 = 1 /\
  forall a, 0 <= a < 2^n -> a <> nar n -> sgn n (2^n - M n) <= sgn n a <= sgn n (M n).
Proof.
  intros Hn Hes. cbn [nth posit_limits]. repeat split; auto.
  - unfold M, nar in *. assert (P : 2^n = 2 * 2^(n-1)) by (apply pow2_S; lia).
    assert (P0 : 2 <= 2^(n-1)) by (change 2 with (2^1) at 1; apply Z.pow_le_mono_r; lia).
    assert (E : sgn n (2^n - (2^(n-1) - 1)) = - (2^(n-1) - 1)).
    { unfold sgn, wrap. rewrite Z.mod_small by lia. destruct (Z.ltb_spec (2^n - (2^(n-1) - 1)) (2^(n-1))); lia. }
    rewrite E. unfold sgn, wrap. rewrite Z.mod_small by lia. destruct (Z.ltb_spec a (2^(n-1))); lia.
  - unfold M, nar in *. assert (P : 2^n = 2 * 2^(n-1)) by (apply pow2_S; lia).
    assert (P0 : 2 <= 2^(n-1)) by (change 2 with (2^1) at 1; apply Z.pow_le_mono_r; lia).
    rewrite (sgn_id n ltac:(lia) (2^(n-1) - 1)) by lia.
    assert (R := sgn_range n ltac:(lia) a). lia.
Qed.
Example limits_witness :
  posit_limits 8 0 = [0x7f; 0x81; 1; 2; 1] /\ posit_limits 16 1 = [0x7fff; 0x8001; 1; 0x0100; 1] /\
  cfloat_limits (mkCf 16 5 true false false) = [0x7bff; 0xfbff; 0x0400; 0x1400; 1] /\
  cfloat_limits (mkCf 8 2 true true true) = [0x7e; 0xfe; 0x20; 1; 1].
Proof. vm_compute. repeat split; reflexivity. Qed.
