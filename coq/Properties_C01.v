(* C01 -- posit arithmetic is correctly rounded for every operand pair and configuration.
   This file holds statements only; each is closed by `exact <lemma>` and followed by
   Print Assumptions.  Model: PositSpec.v / PositModel.v (encodings are Z in [0,2^n)). *)
From Coq Require Import ZArith QArith Qabs.
From UV Require Import PositMono2 PositVal PositPad PositSpec Num PositModel PositProps.
Local Open Scope Z_scope.

(* the value function is strictly increasing in the magnitude pattern: every n >= 2, es >= 0 *)
Theorem C01_value_order : forall n es p p', 2 <= n -> 0 <= es -> 0 < p -> p < p' -> p' < 2^(n-1) ->
  (pos_val n es p < pos_val n es p')%Q.
Proof. exact pos_val_mono. Qed.
Print Assumptions C01_value_order.

(* the rounding used by every operation is the Posit Standard rule (nearest, tie -> even
   encoding via the (n+1)-bit posit, clamp to maxpos/minpos, zero only for zero) *)
Theorem C01_rounding_is_standard : forall n es, 2 <= n -> 0 <= es -> forall x, std_round n es x (pround n es x).
Proof. exact pround_std. Qed.
Print Assumptions C01_rounding_is_standard.

Theorem C01_never_zero_or_nar : forall n es, 2 <= n -> 0 <= es -> forall x, ~ (x == 0)%Q ->
  pround n es x <> 0 /\ pround n es x <> nar n /\ 0 < pround n es x < 2^n.
Proof. exact pround_nonzero_not_nar. Qed.
Print Assumptions C01_never_zero_or_nar.

Theorem C01_representable_is_fixed : forall n es, 2 <= n -> 0 <= es -> forall a x,
  0 <= a < 2^n -> pval n es a = Some x -> pround n es x = a.
Proof. exact pround_pval. Qed.
Print Assumptions C01_representable_is_fixed.

Theorem C01_add : forall n es, 2 <= n -> 0 <= es -> forall a b x y,
  pval n es a = Some x -> pval n es b = Some y ->
  padd n es a b = pround n es (x + y) /\ std_round n es (x + y) (padd n es a b).
Proof. intros n es Hn Hes. exact (arith_rounds n es Hn Hes Qplus). Qed.
Print Assumptions C01_add.

Theorem C01_sub : forall n es, 2 <= n -> 0 <= es -> forall a b x y,
  pval n es a = Some x -> pval n es b = Some y ->
  psub n es a b = pround n es (x - y) /\ std_round n es (x - y) (psub n es a b).
Proof. intros n es Hn Hes. exact (arith_rounds n es Hn Hes Qminus). Qed.
Print Assumptions C01_sub.

Theorem C01_mul : forall n es, 2 <= n -> 0 <= es -> forall a b x y,
  pval n es a = Some x -> pval n es b = Some y ->
  pmul n es a b = pround n es (x * y) /\ std_round n es (x * y) (pmul n es a b).
Proof. intros n es Hn Hes. exact (arith_rounds n es Hn Hes Qmult). Qed.
Print Assumptions C01_mul.

Theorem C01_div : forall n es, 2 <= n -> 0 <= es -> forall a b x y,
  pval n es a = Some x -> pval n es b = Some y -> ~ (y == 0)%Q ->
  pdiv n es a b = pround n es (x / y) /\ std_round n es (x / y) (pdiv n es a b).
Proof. exact div_rounds. Qed.
Print Assumptions C01_div.

Theorem C01_reciprocal : forall n es, 2 <= n -> 0 <= es -> forall a x,
  pval n es a = Some x -> ~ (x == 0)%Q ->
  precip n es a = pround n es (/ x) /\ std_round n es (/ x) (precip n es a).
Proof. exact recip_rounds. Qed.
Print Assumptions C01_reciprocal.

Theorem C01_nar_operand : forall n es (f : Q -> Q -> Q) a b,
  pval n es a = None \/ pval n es b = None -> lift2 n es f a b = nar n.
Proof. exact nar_propagates. Qed.
Print Assumptions C01_nar_operand.

Theorem C01_div_by_zero_or_nar : forall n es a b,
  pval n es a = None \/ pval n es b = None \/ (exists y, pval n es b = Some y /\ (y == 0)%Q) -> pdiv n es a b = nar n.
Proof. exact div_nar. Qed.
Print Assumptions C01_div_by_zero_or_nar.

Theorem C01_reciprocal_of_zero_or_nar : forall n es a,
  pval n es a = None \/ (exists x, pval n es a = Some x /\ (x == 0)%Q) -> precip n es a = nar n.
Proof. exact recip_nar. Qed.
Print Assumptions C01_reciprocal_of_zero_or_nar.

Theorem C01_x_minus_x : forall n es, 2 <= n -> 0 <= es -> forall a x, pval n es a = Some x -> psub n es a a = 0.
Proof. exact sub_self. Qed.
Print Assumptions C01_x_minus_x.

Theorem C01_zero_times_x : forall n es, 2 <= n -> 0 <= es -> forall b y, pval n es b = Some y ->
  pmul n es 0 b = 0 /\ pmul n es b 0 = 0.
Proof. intros n es Hn Hes b y Hb. split; [exact (mul_zero_l n es Hn Hes b y Hb)|exact (mul_zero_r n es Hn Hes b y Hb)]. Qed.
Print Assumptions C01_zero_times_x.

Theorem C01_negation_exact : forall n es, 2 <= n -> forall a, 0 <= a < 2^n ->
  oQeq (pval n es (pneg n a)) (oQmap Qopp (pval n es a)).
Proof. exact neg_exact. Qed.
Print Assumptions C01_negation_exact.

Theorem C01_abs_exact : forall n es, 2 <= n -> 0 <= es -> forall a, 0 <= a < 2^n ->
  oQeq (pval n es (pabs n a)) (oQmap Qabs (pval n es a)).
Proof. exact abs_exact. Qed.
Print Assumptions C01_abs_exact.

(* non-vacuity: concrete inputs meeting the hypotheses, evaluated by the kernel *)
Example C01_witness_tie : padd 8 0 0x41 0x41 = 0x60 /\ padd 8 0 0x41 0x43 = 0x61 /\ pmul 8 2 0x7f 0x7f = 0x7f
  /\ pdiv 8 1 0x01 0x7f = 0x01 /\ psub 8 1 0x35 0x35 = 0 /\ precip 8 0 0x60 = 0x20 /\ pdiv 8 0 0x40 0 = 0x80.
Proof. vm_compute. repeat split; reflexivity. Qed.
