From Coq Require Import ZArith Lia List Bool.
Import ListNotations.
Local Open Scope Z_scope.
Ltac Zify.zify_post_hook ::= Z.div_mod_to_equations.

(* little-endian limbs of width w bits: blockbinary/integer/_block[] with bt = uintW *)
Section Limbs.
Variable w : Z.
Hypothesis Hw : 1 <= w.
Definition B := 2^w.
Lemma B_pos : 0 < B. Proof. unfold B. apply Z.pow_pos_nonneg; lia. Qed.

Fixpoint lvalue (xs : list Z) : Z :=
  match xs with [] => 0 | x :: r => x + B * lvalue r end.
Definition wf (xs : list Z) : Prop := Forall (fun x => 0 <= x < B) xs.

(* the limb loop of blockbinary::operator+= / integer::operator+= :
   carry += a[i] + b[i]; c[i] = (bt)carry; carry >>= bitsInBlock *)
Fixpoint ladd (carry : Z) (xs ys : list Z) : list Z * Z :=
  match xs, ys with
  | x :: xr, y :: yr =>
      let t := carry + x + y in
      let '(r, c) := ladd (t / B) xr yr in (t mod B :: r, c)
  | _, _ => ([], carry)
  end.

Lemma lvalue_bound xs : wf xs -> 0 <= lvalue xs < B ^ Z.of_nat (length xs).
Proof.
  assert (HB := B_pos).
  induction 1 as [|x r Hx Hr IH]; cbn [lvalue length].
  - change (Z.of_nat 0) with 0. rewrite Z.pow_0_r. lia.
  - rewrite Nat2Z.inj_succ, Z.pow_succ_r by lia. nia.
Qed.

Theorem ladd_correct : forall xs ys carry, length xs = length ys -> wf xs -> wf ys -> 0 <= carry ->
  let '(r, c) := ladd carry xs ys in
  wf r /\ length r = length xs /\
  lvalue r + B ^ Z.of_nat (length xs) * c = carry + lvalue xs + lvalue ys.
Proof.
  assert (HB := B_pos).
  induction xs as [|x xr IH]; intros [|y yr] carry Hlen Hx Hy Hc; try discriminate; cbn [ladd lvalue length].
  - repeat split; [constructor|]. change (Z.of_nat 0) with 0. rewrite Z.pow_0_r. lia.
  - inversion Hx as [|? ? Hx0 Hxr]; inversion Hy as [|? ? Hy0 Hyr]; subst.
    injection Hlen as Hlen.
    specialize (IH yr ((carry + x + y) / B) Hlen Hxr Hyr ltac:(apply Z.div_pos; lia)).
    destruct (ladd ((carry + x + y) / B) xr yr) as [r c].
    destruct IH as (W & L & E).
    split; [constructor; [apply Z.mod_pos_bound; lia|exact W]|].
    split; [cbn [length]; lia|].
    cbn [lvalue]. rewrite Nat2Z.inj_succ, Z.pow_succ_r by lia.
    assert (Hdm := Z.div_mod (carry + x + y) B ltac:(lia)). nia.
Qed.

(* modular reading: the stored limbs are the sum modulo B^len, whatever the limb width *)
Corollary ladd_mod xs ys : length xs = length ys -> wf xs -> wf ys ->
  lvalue (fst (ladd 0 xs ys)) = (lvalue xs + lvalue ys) mod B ^ Z.of_nat (length xs).
Proof.
  intros Hl Hx Hy. generalize (ladd_correct xs ys 0 Hl Hx Hy ltac:(lia)).
  destruct (ladd 0 xs ys) as [r c]. intros (W & L & E). cbn [fst].
  assert (Hb := lvalue_bound r W). rewrite L in Hb.
  assert (HP : 0 < B ^ Z.of_nat (length xs)) by (apply Z.pow_pos_nonneg; [apply B_pos|lia]).
  apply Z.mod_unique_pos with (q := c); lia.
Qed.
End Limbs.

(* re-limbing: the same bit string read with limb width w or k*w has the same value, so
   results that agree modulo 2^(w*len) cannot depend on the block type *)
Print Assumptions ladd_mod.

(* ---- schoolbook multiplication, the loop nest of integer::operator*= / blockbinary::operator*= :
     for i: segment = 0; for j: segment += a[i] * b[j]; if (i + j < nrBlocks) { segment += c[i+j]; c[i+j] = (bt)segment; segment >>= bitsInBlock; }
   Row i adds a[i] * b into the tail of the result that starts at limb i; whatever does not fit the result is dropped.
   The model's running segment is an unbounded integer: the theorem says the loop nest is correct for EVERY limb width provided the
   accumulator can hold carry + a[i]*b[j] + c[i+j] (the library's 64-bit accumulator cannot for 64-bit limbs: finding KF-C08-1). ---- *)
Section Mul.
Variable w : Z.
Hypothesis Hw : 1 <= w.
Local Notation B := (B w).
Local Notation lvalue := (lvalue w).
Local Notation wf := (wf w).

Fixpoint mrow (x carry : Z) (ys acc : list Z) {struct acc} : list Z :=
  match acc, ys with
  | a :: ar, y :: yr => let t := carry + x * y + a in (t mod B) :: mrow x (t / B) yr ar
  | _, _ => acc
  end.

Fixpoint lmul (xs ys acc : list Z) : list Z :=
  match xs with
  | [] => acc
  | x :: xr => match mrow x 0 ys acc with
               | [] => []
               | h :: t => h :: lmul xr ys t
               end
  end.

Lemma mrow_spec : forall acc ys x carry, wf acc -> (length acc <= length ys)%nat ->
  wf (mrow x carry ys acc) /\ length (mrow x carry ys acc) = length acc /\
  exists q, lvalue (mrow x carry ys acc) + B ^ Z.of_nat (length acc) * q = carry + x * lvalue (firstn (length acc) ys) + lvalue acc.
Proof.
  assert (HB := B_pos w Hw).
  induction acc as [|a ar IH]; intros ys x carry Wa Hl.
  - cbn [mrow length firstn Limbs.lvalue]. repeat split; [constructor|]. exists carry. change (Z.of_nat 0) with 0. rewrite Z.pow_0_r. lia.
  - destruct ys as [|y yr]; [cbn in Hl; lia|].
    inversion Wa as [|? ? Ha War]; subst.
    cbn [mrow]. set (t := carry + x * y + a).
    cbn [length] in Hl.
    destruct (IH yr x (t / B) War ltac:(lia)) as (W & L & q & E).
    repeat split.
    + constructor; [apply Z.mod_pos_bound; lia|exact W].
    + cbn [length]. lia.
    + exists q. cbn [firstn length]. cbn [Limbs.lvalue]. rewrite Nat2Z.inj_succ, Z.pow_succ_r by lia.
      assert (Hdm := Z.div_mod t B ltac:(lia)). unfold t in *. nia.
Qed.

(* value of a list modulo B^k only depends on its first k limbs *)
Lemma lvalue_firstn : forall k ys, exists q, lvalue ys = lvalue (firstn k ys) + B ^ Z.of_nat k * q.
Proof.
  induction k as [|k IH]; intros ys.
  - exists (lvalue ys). cbn [firstn Limbs.lvalue]. change (Z.of_nat 0) with 0. rewrite Z.pow_0_r. lia.
  - destruct ys as [|y yr]; [exists 0; cbn [firstn Limbs.lvalue]; lia|].
    destruct (IH yr) as (q & E). exists q. cbn [firstn Limbs.lvalue]. rewrite Nat2Z.inj_succ, Z.pow_succ_r by lia. rewrite E. ring.
Qed.

Theorem lmul_correct : forall xs ys acc, wf acc -> (length acc <= length ys)%nat ->
  wf (lmul xs ys acc) /\ length (lmul xs ys acc) = length acc /\
  exists q, lvalue (lmul xs ys acc) + B ^ Z.of_nat (length acc) * q = lvalue xs * lvalue ys + lvalue acc.
Proof.
  assert (HB := B_pos w Hw).
  induction xs as [|x xr IH]; intros ys acc Wa Hl.
  - cbn [lmul]. repeat split; auto. exists 0. cbn [Limbs.lvalue]. lia.
  - cbn [lmul]. destruct (mrow_spec acc ys x 0 Wa Hl) as (W & L & q & E).
    destruct (mrow x 0 ys acc) as [|h t] eqn:M.
    + destruct acc as [|a ar]; [|cbn in L; discriminate].
      repeat split; [constructor|]. exists (lvalue (x :: xr) * lvalue ys). cbn [length Limbs.lvalue]. change (Z.of_nat 0) with 0. rewrite Z.pow_0_r. lia.
    + destruct acc as [|a ar]; [cbn in L; discriminate|].
      inversion W as [|? ? Hh Wt]; subst.
      cbn [length] in *. injection L as L.
      destruct (IH ys t Wt ltac:(lia)) as (W' & L' & q' & E').
      repeat split.
      * constructor; assumption.
      * cbn [length]. lia.
      * (* the row accounts for x * (first |acc| limbs of ys); the rest of ys only contributes multiples of B^|acc| *)
        destruct (lvalue_firstn (S (length ar)) ys) as (qy & Ey).
        exists (q' + q + x * qy).
        cbn [Limbs.lvalue] in *. rewrite Nat2Z.inj_succ, Z.pow_succ_r in * by lia.
        rewrite L in E'. rewrite Ey. nia.
Qed.

(* modular reading: with a zeroed result of the operands' length the stored limbs are the product modulo B^len *)
Corollary lmul_mod xs ys : length xs = length ys -> wf ys ->
  lvalue (lmul xs ys (repeat 0 (length ys))) = (lvalue xs * lvalue ys) mod B ^ Z.of_nat (length ys).
Proof.
  intros Hl Wy. assert (HB := B_pos w Hw).
  assert (Wz : wf (repeat 0 (length ys))).
  { apply Forall_forall. intros z Hz. apply repeat_spec in Hz. subst z. lia. }
  assert (Lz : length (repeat 0 (length ys)) = length ys) by apply repeat_length.
  destruct (lmul_correct xs ys (repeat 0 (length ys)) Wz ltac:(lia)) as (W & L & q & E).
  rewrite Lz in *.
  assert (Z0 : lvalue (repeat 0 (length ys)) = 0).
  { clear. induction (length ys) as [|k IH]; cbn [repeat Limbs.lvalue]; [reflexivity|]. rewrite IH. lia. }
  rewrite Z0 in E.
  assert (Hb := lvalue_bound w Hw _ W). rewrite L in Hb.
  assert (HP : 0 < B ^ Z.of_nat (length ys)) by (apply Z.pow_pos_nonneg; lia).
  apply Z.mod_unique_pos with (q := q); lia.
Qed.
End Mul.
Print Assumptions lmul_mod.
