From Coq Require Import ZArith Lia List Bool.
Import ListNotations.
Local Open Scope Z_scope.
Ltac Zify.zify_post_hook ::= Z.div_mod_to_equations.

(* little-endian limbs of width w bits: blockbinary/integer/_block[] with bt = uintW *)
Section Limbs.
Variable w : Z.
Hypothesis Hw : 1 <= w.
Definition B := 2^w.
Lemma B_pos : 0 < B. Proof. unfold B. apply Z.pow_pos_nonneg; lia. Qed.

Fixpoint lvalue (xs : list Z) : Z :=
  match xs with [] => 0 | x :: r => x + B * lvalue r end.
Definition wf (xs : list Z) : Prop := Forall (fun x => 0 <= x < B) xs.

(* the limb loop of blockbinary::operator+= / integer::operator+= :
   carry += a[i] + b[i]; c[i] = (bt)carry; carry >>= bitsInBlock *)
Fixpoint ladd (carry : Z) (xs ys : list Z) : list Z * Z :=
  match xs, ys with
  | x :: xr, y :: yr =>
      let t := carry + x + y in
      let '(r, c) := ladd (t / B) xr yr in (t mod B :: r, c)
  | _, _ => ([], carry)
  end.

Lemma lvalue_bound xs : wf xs -> 0 <= lvalue xs < B ^ Z.of_nat (length xs).
Proof.
  assert (HB := B_pos).
  induction 1 as [|x r Hx Hr IH]; cbn [lvalue length].
  - change (Z.of_nat 0) with 0. rewrite Z.pow_0_r. lia.
  - rewrite Nat2Z.inj_succ, Z.pow_succ_r by lia. nia.
Qed.

Theorem ladd_correct : forall xs ys carry, length xs = length ys -> wf xs -> wf ys -> 0 <= carry ->
  let '(r, c) := ladd carry xs ys in
  wf r /\ length r = length xs /\
  lvalue r + B ^ Z.of_nat (length xs) * c = carry + lvalue xs + lvalue ys.
Proof.
  assert (HB := B_pos).
  induction xs as [|x xr IH]; intros [|y yr] carry Hlen Hx Hy Hc; try discriminate; cbn [ladd lvalue length].
  - repeat split; [constructor|]. change (Z.of_nat 0) with 0. rewrite Z.pow_0_r. lia.
  - inversion Hx as [|? ? Hx0 Hxr]; inversion Hy as [|? ? Hy0 Hyr]; subst.
    injection Hlen as Hlen.
    specialize (IH yr ((carry + x + y) / B) Hlen Hxr Hyr ltac:(apply Z.div_pos; lia)).
    destruct (ladd ((carry + x + y) / B) xr yr) as [r c].
    destruct IH as (W & L & E).
    split; [constructor; [apply Z.mod_pos_bound; lia|exact W]|].
    split; [cbn [length]; lia|].
    cbn [lvalue]. rewrite Nat2Z.inj_succ, Z.pow_succ_r by lia.
    assert (Hdm := Z.div_mod (carry + x + y) B ltac:(lia)). nia.
Qed.

(* modular reading: the stored limbs are the sum modulo B^len, whatever the limb width *)
Corollary ladd_mod xs ys : length xs = length ys -> wf xs -> wf ys ->
  lvalue (fst (ladd 0 xs ys)) = (lvalue xs + lvalue ys) mod B ^ Z.of_nat (length xs).
Proof.
  intros Hl Hx Hy. generalize (ladd_correct xs ys 0 Hl Hx Hy ltac:(lia)).
  destruct (ladd 0 xs ys) as [r c]. intros (W & L & E). cbn [fst].
  assert (Hb := lvalue_bound r W). rewrite L in Hb.
  assert (HP : 0 < B ^ Z.of_nat (length xs)) by (apply Z.pow_pos_nonneg; [apply B_pos|lia]).
  apply Z.mod_unique_pos with (q := c); lia.
Qed.
End Limbs.

(* re-limbing: the same bit string read with limb width w or k*w has the same value, so
   results that agree modulo 2^(w*len) cannot depend on the block type *)
Print Assumptions ladd_mod.
