(* Fast evaluation of the posit rounding: the floor pattern is *guessed* by direct
   bit arithmetic and accepted only after the two comparisons that characterise it
   (RoundNE.fl_g); [pround_f_eq] shows the result is the specification's for every
   input, whatever the guess. *)
From Coq Require Import ZArith QArith Qabs Lia Lqa Bool List.
From UV Require Import RoundSpec RoundNE PositMono PositMono2 PositVal PositPad PositSpec Num PositModel.
Local Open Scope Z_scope.

(* guess of the largest magnitude pattern whose value is <= x (x > 0) *)
Definition pguess (n es : Z) (x : Q) : Z :=
  let L := n - 1 in
  let a := Qnum x in let b := Zpos (Qden x) in
  let s := qlog2 a b in
  (* fraction with L bits: floor (a * 2^L / (b * 2^s)) - 2^L *)
  let num := if Z.leb 0 s then Z.shiftl a L else Z.shiftl a (L - s) in
  let den := if Z.leb 0 s then Z.shiftl b s else b in
  let fr := num / den - Z.shiftl 1 L in
  let X := s * Z.shiftl 1 L + fr in
  let T := Z.shiftr X es in
  let k := Z.shiftr T L in let g := T - Z.shiftl k L in
  if Z.ltb k 0 then Z.shiftr (g + Z.shiftl 1 L) (1 - k)
  else
    let sh := k + 2 in
    let q1 := Z.shiftr (Z.shiftl 1 (L + 1) - g + Z.shiftl 1 sh - 1) sh in
    Z.shiftl 1 L - q1.

Definition pround_pos_f (n es : Z) (x : Q) : Z :=
  if Qle_bool x (ival n es 0) then 1
  else rne_g (ival n es) (M n - 1) ipar (ithr n es) (pguess n es x - 1) x + 1.

Definition pround_f (n es : Z) (x : Q) : Z :=
  match Qcompare x 0 with
  | Eq => 0
  | Gt => pround_pos_f n es x
  | Lt => 2^n - pround_pos_f n es (- x)
  end.

Definition lift2_f (n es : Z) (f : Q -> Q -> Q) (a b : Z) : Z :=
  match pval n es a, pval n es b with
  | Some x, Some y => pround_f n es (Qred (f x y))
  | _, _ => nar n
  end.
Definition padd_f n es := lift2_f n es Qplus.
Definition psub_f n es := lift2_f n es Qminus.
Definition pmul_f n es := lift2_f n es Qmult.
Definition pdiv_f n es a b :=
  match pval n es b with
  | Some y => if Qeq_bool y 0 then nar n else lift2_f n es Qdiv a b
  | None => nar n
  end.
Definition precip_f (n es a : Z) : Z :=
  match pval n es a with
  | None => nar n
  | Some x => if Qeq_bool x 0 then nar n else pround_f n es (Qred (/ x))
  end.
Definition p_of_num_f (n es : Z) (x : num) : Z :=
  match x with
  | Fin s q => pround_f n es (if s then - q else q)%Q
  | _ => nar n
  end.
Definition p_of_int_f (n es z : Z) : Z := pround_f n es (inject_Z z).

Section Eq.
Variables n es : Z.
Hypothesis Hn : 2 <= n.
Hypothesis Hes : 0 <= es.

Lemma pround_pos_f_eq x : pround_pos_f n es x = pround_pos n es x.
Proof.
  unfold pround_pos_f, pround_pos.
  destruct (Qle_bool x (ival n es 0)) eqn:E; [reflexivity|].
  f_equal. apply rne_g_eq.
  - apply M_pos; assumption.
  - apply ival_mono; assumption.
  - apply Qlt_le_weak. apply Qnot_le_lt. intro Hc. apply Qle_bool_iff in Hc. congruence.
Qed.

Theorem pround_f_eq x : pround_f n es x = pround n es x.
Proof. unfold pround_f, pround. rewrite !pround_pos_f_eq. reflexivity. Qed.

Theorem lift2_f_eq f a b : lift2_f n es f a b = lift2 n es f a b.
Proof. unfold lift2_f, lift2. destruct (pval n es a), (pval n es b); try reflexivity. apply pround_f_eq. Qed.
Theorem pdiv_f_eq a b : pdiv_f n es a b = pdiv n es a b.
Proof. unfold pdiv_f, pdiv. destruct (pval n es b) as [y|]; [|reflexivity].
  destruct (Qeq_bool y 0); [reflexivity|]. apply lift2_f_eq. Qed.
Theorem precip_f_eq a : precip_f n es a = precip n es a.
Proof. unfold precip_f, precip. destruct (pval n es a) as [x|]; [|reflexivity].
  destruct (Qeq_bool x 0); [reflexivity|]. apply pround_f_eq. Qed.
Theorem p_of_num_f_eq x : p_of_num_f n es x = p_of_num n es x.
Proof. destruct x; try reflexivity. apply pround_f_eq. Qed.
Theorem p_of_int_f_eq z : p_of_int_f n es z = p_of_int n es z.
Proof. apply pround_f_eq. Qed.
End Eq.
