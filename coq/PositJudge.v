(* Judge for the posit family: maps a case (cfg, op, args) to the model's answer
   and decides whether the implementation's answer is acceptable. *)
From Coq Require Import ZArith QArith Qabs Lia Bool List.
From UV Require Import RoundSpec RoundNE PositMono2 PositSpec Num PositModel PositFast Ops Verdict NativeJudge SqrtModel.
Import ListNotations.
Local Open Scope Z_scope.


Definition p_exact_result (n es op a b : Z) : option Q :=
  match pval n es a, pval n es b with
  | Some x, Some y =>
      if Z.eqb op OP_add then Some (x + y)%Q else
      if Z.eqb op OP_sub then Some (x - y)%Q else
      if Z.eqb op OP_mul then Some (x * y)%Q else
      if Z.eqb op OP_div then (if Qeq_bool y 0 then None else Some (x / y)%Q) else None
  | _, _ => None
  end.

Definition p_inexact_f (n es : Z) (x : Q) : bool :=
  match pval n es (pround_f n es x) with Some y => negb (Qeq_bool x y) | None => true end.

Definition posit_class (n es op a b : Z) : Z :=
  (if Z.eqb a (nar n) || Z.eqb b (nar n) then 1 else 0) +
  (if Z.eqb a 0 || Z.eqb b 0 then 2 else 0) +
  match p_exact_result n es op a b with
  | None => 0
  | Some x =>
      let ax := Qabs x in
      (if Qeq_bool x 0 then 0 else
       if Qle_bool (pos_val n es (M n)) ax then (if Qeq_bool (pos_val n es (M n)) ax then 0 else 4) else
       if Qle_bool ax (pos_val n es 1) then (if Qeq_bool (pos_val n es 1) ax then 0 else 8) else
       if p_inexact_f n es x then 32 else 0)
  end.

Definition judge_posit (cfg : list Z) (op : Z) (args res : list Z) : verdict :=
  let n := nth0 cfg 0 in let es := nth0 cfg 1 in
  let a := nth0 args 0 in let b := nth0 args 1 in
  let exact (e : list Z) (nt : bool) := mkV (list_eqb e res) e nt in
  if Z.eqb op OP_add then exact [padd_f n es a b] (negb (Z.eqb (posit_class n es op a b) 0)) else
  if Z.eqb op OP_sub then exact [psub_f n es a b] (negb (Z.eqb (posit_class n es op a b) 0)) else
  if Z.eqb op OP_mul then exact [pmul_f n es a b] (negb (Z.eqb (posit_class n es op a b) 0)) else
  if Z.eqb op OP_div then exact [pdiv_f n es a b] (negb (Z.eqb (posit_class n es op a b) 0)) else
  if Z.eqb op OP_rcp then exact [precip_f n es a] true else
  if Z.eqb op OP_neg then exact [pneg n a] true else
  if Z.eqb op OP_sqrt then
    (let e := psqrt n es a in
     if Z.leb n 16 then exact [e] true   (* correctly rounded up to 16 bits; one of the two neighbours above *)
     else mkV (list_eqb [e] res || list_eqb [wrap n (e + 1)] res || list_eqb [wrap n (e - 1)] res) [e] true) else
  if Z.eqb op OP_abs then exact [pabs n a] true else
  if Z.eqb op OP_inc then (if pinc_defined n a then exact [pinc n a] true else mkV true res false) else
  if Z.eqb op OP_dec then (if pdec_defined n a then exact [pdec n a] true else mkV true res false) else
  if Z.eqb op OP_lt then exact [b2z (plt n es a b)] true else
  if Z.eqb op OP_gt then exact [b2z (plt n es b a)] true else
  if Z.eqb op OP_le then exact [b2z (negb (plt n es b a))] true else
  if Z.eqb op OP_ge then exact [b2z (negb (plt n es a b))] true else
  if Z.eqb op OP_eq then exact [b2z (peq n es a b)] true else
  if Z.eqb op OP_ne then exact [b2z (negb (peq n es a b))] true else
  if Z.eqb op OP_from_f64 then exact [p_of_num_f n es (f64_decode a)] true else
  if Z.eqb op OP_from_f32 then exact [p_of_num_f n es (f32_decode a)] true else
  if Z.eqb op OP_from_f80 then exact [p_of_num_f n es (f80_decode a)] true else
  if Z.eqb op OP_from_int then exact [p_of_int_f n es (int_decode true a b)] true else   (* args: width, bits *)
  if Z.eqb op OP_from_uint then exact [p_of_int_f n es (int_decode false a b)] true else
  if Z.eqb op OP_to_f64 then judge_to_f64 (p_to_num n es a) res else
  if Z.eqb op OP_to_f32 then judge_to_f32 (p_to_num n es a) res else
  if Z.eqb op OP_conv then
    (if Z.eqb (Z.of_nat (length cfg)) 4 then     (* posit<n,es> -> posit<n2,es2>: the target's rounding of the source value *)
       exact [p_of_num_f (nth0 cfg 2) (nth0 cfg 3) (p_to_num n es a)] true
     else                                          (* posit -> integer<ni> adapter: truncate toward zero, wrap *)
       match p_to_int n es a with
       | Some z => exact [wrap (nth0 cfg 2) z] true
       | None => mkV true res false
       end) else
  if Z.eqb op OP_to_f64_rt then (if ieee_exact 11 52 (p_to_num n es a) then exact [a] true else mkV true res false) else
  if Z.eqb op OP_to_int then    (* args: width w, bits; res: w-bit two's complement; judged only when it fits *)
    match p_to_int n es b with
    | Some z => if Z.leb (- 2^(a-1)) z && Z.ltb z (2^(a-1)) then exact [wrap a z] true else mkV true res false
    | None => mkV true res false
    end else
  mkV false [] false.

(* integer<ni> -> posit<n,es> adapter: cfg = [ni; n; es] *)
Definition judge_i2p (cfg : list Z) (args res : list Z) : verdict :=
  let ni := nth0 cfg 0 in let e := [p_of_int_f (nth0 cfg 1) (nth0 cfg 2) (sgn ni (nth0 args 0))] in
  mkV (list_eqb e res) e true.
