(* C03 -- conversion from native numbers to every type is correctly rounded.
   Statements only.  A native source is first decoded to its exact value (Num.f32_decode /
   f64_decode / f80_decode / int_decode), so the result depends on the value only, not on the width
   of the type that held it; the value is then rounded by the target's rounding function. *)
From Coq Require Import ZArith QArith Qabs.
From UV Require Import PositSpec Num PositModel PositProps PositFast FixpntModel IntegerModel IntProps CfloatSpec CfloatModel CfloatProps.
Local Open Scope Z_scope.

(* posit: Posit-Standard rounding of the source value; NaN and infinities become NaR; zero is zero *)
Theorem C03_posit_rounding : forall n es, 2 <= n -> 0 <= es -> forall s q,
  p_of_num n es (Fin s q) = pround n es (if s then - q else q)%Q /\
  std_round n es (if s then - q else q)%Q (p_of_num n es (Fin s q)).
Proof. intros n es Hn Hes s q. split; [reflexivity|]. apply pround_std; assumption. Qed.
Print Assumptions C03_posit_rounding.
Theorem C03_posit_specials : forall n es s, p_of_num n es NaN = nar n /\ p_of_num n es (Inf s) = nar n /\ p_of_num n es (Fin s 0) = 0.
Proof. intros n es s. repeat split; try reflexivity. destruct s; reflexivity. Qed.
Print Assumptions C03_posit_specials.
Theorem C03_posit_exact_when_representable : forall n es, 2 <= n -> 0 <= es -> forall a x,
  0 <= a < 2^n -> pval n es a = Some x -> pround n es x = a.
Proof. exact pround_pval. Qed.
Print Assumptions C03_posit_exact_when_representable.
(* the fast evaluation used by the judge is the specification *)
Theorem C03_posit_fast_eq : forall n es, 2 <= n -> 0 <= es -> forall x, p_of_num_f n es x = p_of_num n es x.
Proof. exact p_of_num_f_eq. Qed.
Print Assumptions C03_posit_fast_eq.

(* cfloat: nearest-even / flush / overflow of the source value (see C02 for the statements used) *)
Theorem C03_cfloat_rounding : forall c, 1 <= c_es c -> c_es c + 1 < c_n c -> forall q,
  ~ (q == 0)%Q -> (cf_val (c_n c) (c_es c) (c_lo c) <= q)%Q -> (q < cf_val (c_n c) (c_es c) (c_top c + 1))%Q ->
  let m := cf_round_mag c q in
  c_lo c <= m <= c_top c + 1 /\
  (forall j, c_lo c <= j <= c_top c + 1 -> (Qabs (q - cf_val (c_n c) (c_es c) m) <= Qabs (q - cf_val (c_n c) (c_es c) j))%Q) /\
  (forall j, c_lo c <= j <= c_top c + 1 -> j <> m ->
     (Qabs (q - cf_val (c_n c) (c_es c) m) == Qabs (q - cf_val (c_n c) (c_es c) j))%Q -> Z.even m = true).
Proof. exact cf_round_mag_nearest. Qed.
Print Assumptions C03_cfloat_rounding.
Theorem C03_cfloat_specials : forall c, 1 <= c_es c -> c_es c + 1 < c_n c -> forall s,
  cf_encode c NaN = c_nanm c /\ cf_encode c (Inf s) = signbit c s + c_infm c /\ cf_encode c (Fin s 0) = signbit c s + 0.
Proof. exact cf_encode_specials. Qed.
Print Assumptions C03_cfloat_specials.

(* fixpnt: nearest multiple of 2^-r, ties to even, then wrap (Modulo) or clamp (Saturate) *)
Theorem C03_fixpnt_rounding : forall n r sat x,
  fx_of_Q n r sat x = fx_fit n sat (rne_div (Qnum x * 2^r) (Zpos (Qden x))) /\
  let q := rne_div (Qnum x * 2^r) (Zpos (Qden x)) in
  2 * Z.abs (q * Zpos (Qden x) - Qnum x * 2^r) <= Zpos (Qden x) /\
  (2 * Z.abs (q * Zpos (Qden x) - Qnum x * 2^r) = Zpos (Qden x) -> Z.even q = true).
Proof. intros. split; [reflexivity|]. apply rne_div_spec. reflexivity. Qed.
Print Assumptions C03_fixpnt_rounding.
Theorem C03_fixpnt_exact_when_representable : forall n, 1 <= n -> forall r sat a, 0 <= r -> 0 <= a < 2^n ->
  fx_of_Q n r sat (fx_val n r a) = a.
Proof. exact fx_roundtrip. Qed.
Print Assumptions C03_fixpnt_exact_when_representable.

(* integer: the value reduced modulo 2^n; the same value held in a narrower or wider native integer
   type converts to the same result *)
Theorem C03_integer_width_independent : forall w1 w2 z, 1 <= w1 -> 1 <= w2 ->
  - 2^(w1-1) <= z < 2^(w1-1) -> - 2^(w2-1) <= z < 2^(w2-1) -> w1 <> 65 -> w2 <> 65 ->
  int_decode true w1 (wrap w1 z) = int_decode true w2 (wrap w2 z).
Proof.
  intros w1 w2 z H1 H2 F1 F2 N1 N2. unfold int_decode.
  destruct (Z.eqb_spec w1 65); [contradiction|]. destruct (Z.eqb_spec w2 65); [contradiction|].
  rewrite (sgn_wrap w1 H1), (sgn_wrap w2 H2). rewrite (sgn_id w1 H1 z F1), (sgn_id w2 H2 z F2). reflexivity.
Qed.
Print Assumptions C03_integer_width_independent.

Example C03_witness :
  p_of_num 8 0 (f64_decode 0x3ff0400000000000) = 0x40 /\ p_of_num 8 0 (f64_decode 0x3ff0400000000001) = 0x41
  /\ p_of_num 16 1 (f32_decode 0x7f800000) = 0x8000 /\ p_of_int 8 0 1000 = 0x7f
  /\ cf_encode (mkCf 8 2 true false false) (f64_decode 0x400f800000000000) = 0x5f
  /\ cf_encode (mkCf 8 2 true false false) (f64_decode 0x400fc00000000000) = 0x7e
  /\ cf_encode (mkCf 8 2 true false false) (f64_decode 0x400fbfffffffffff) = 0x5f
  /\ fx_of_Q 8 4 false (3 # 32) = 0x02 /\ fx_of_Q 8 4 true (100 # 1) = 0x7f /\ fx_of_Q 8 4 false (100 # 1) = 0x40.
Proof. vm_compute. repeat split; reflexivity. Qed.
