(* Executable specification-level model of posit<n,es>: every public operation
   as a function of raw encodings (Z in [0,2^n)).  Proofs about it live in
   PositProps.v; nothing here depends on a proof. *)
From Coq Require Import ZArith QArith Qabs Lia Bool List.
From UV Require Import RoundSpec RoundNE PositMono PositMono2 PositVal PositPad PositSpec Num.
Import ListNotations.
Local Open Scope Z_scope.

Definition pone (n : Z) : Z := 2^(n-2).                    (* encoding of 1.0 (n >= 2) *)
Definition pneg (n a : Z) : Z := wrap n (2^n - a).
Definition pabs (n a : Z) : Z := if Z.ltb (nar n) a then pneg n a else a.
Definition precip (n es a : Z) : Z :=
  match pval n es a with
  | None => nar n
  | Some x => if Qeq_bool x 0 then nar n else pround n es (Qred (/ x))
  end.

(* order: by value, NaR below everything *)
Definition plt (n es a b : Z) : bool :=
  match pval n es a, pval n es b with
  | None, None => false | None, Some _ => true | Some _, None => false
  | Some x, Some y => Qlt_bool x y end.
Definition peq (n es a b : Z) : bool :=
  match pval n es a, pval n es b with
  | None, None => true | Some x, Some y => Qeq_bool x y | _, _ => false end.

(* stepping: the adjacent value; only defined away from the ends of the finite range *)
Definition pinc (n a : Z) : Z := wrap n (a + 1).
Definition pdec (n a : Z) : Z := wrap n (a - 1).
Definition pinc_defined (n a : Z) : bool := negb (Z.eqb a (nar n)) && negb (Z.eqb a (nar n - 1)).
Definition pdec_defined (n a : Z) : bool := negb (Z.eqb a (nar n)) && negb (Z.eqb a (nar n + 1)).

(* conversions *)
Definition p_of_num (n es : Z) (x : num) : Z :=
  match x with
  | Fin s q => pround n es (if s then - q else q)%Q
  | _ => nar n
  end.
Definition p_to_num (n es a : Z) : num :=
  match pval n es a with None => NaN | Some x => num_of_Q x end.
Definition p_of_int (n es z : Z) : Z := pround n es (inject_Z z).
(* truncation toward zero *)
Definition Qtrunc (x : Q) : Z := Z.quot (Qnum x) (Zpos (Qden x)).
Definition p_to_int (n es a : Z) : option Z :=
  match pval n es a with None => None | Some x => Some (Qtrunc x) end.

(* rounding happened? (used only to classify cases as non-trivial) *)
Definition p_inexact (n es : Z) (x : Q) : bool :=
  match pval n es (pround n es x) with Some y => negb (Qeq_bool x y) | None => true end.
