From Coq Require Import ZArith Lia Bool List Permutation.
Import ListNotations.
Local Open Scope Z_scope.

(* quire as sign-magnitude fixed point; values in units of 2^-half_range *)
Record qstate := { qneg : bool; qmag : Z }.
Definition qabs (s : qstate) : Z := if qneg s then - qmag s else qmag s.
Definition canonical (s : qstate) : Prop := 0 <= qmag s /\ (qmag s = 0 -> qneg s = false).
Definition q0 : qstate := {| qneg := false; qmag := 0 |}.

(* operator+=(value): the sign/magnitude case split of quire.hpp:258-299 *)
Definition q_add (s : qstate) (v : Z) : qstate :=
  if Z.eqb v 0 then s else
  let vneg := Z.ltb v 0 in let vmag := Z.abs v in
  if Bool.eqb (qneg s) vneg then {| qneg := qneg s; qmag := qmag s + vmag |}
  else match Z.compare (qmag s) vmag with
       | Lt => {| qneg := vneg; qmag := vmag - qmag s |}       (* swap: *this = rhs; subtract old *)
       | Gt => {| qneg := qneg s; qmag := qmag s - vmag |}
       | Eq => {| qneg := false; qmag := 0 |}
       end.

Lemma q_add_refines s v : qabs (q_add s v) = qabs s + v.
Proof.
  unfold q_add, qabs. destruct (Z.eqb_spec v 0) as [->|Hv]; [lia|].
  destruct s as [sn sm]; cbn [qneg qmag].
  destruct (Z.ltb_spec v 0); destruct sn; cbn [Bool.eqb qneg qmag];
    try destruct (Z.compare_spec sm (Z.abs v)); cbn [qneg qmag]; lia.
Qed.

Lemma q_add_canonical s v : canonical s -> canonical (q_add s v).
Proof.
  unfold canonical, q_add. intros (Hm & Hz). destruct (Z.eqb_spec v 0) as [->|Hv]; [auto|].
  destruct s as [sn sm]; cbn [qneg qmag] in *.
  destruct (Z.ltb_spec v 0); destruct sn; cbn [Bool.eqb qneg qmag];
    try destruct (Z.compare_spec sm (Z.abs v)); cbn [qneg qmag]; split; try lia; intros; try lia; auto;
    try (exfalso; lia).
Qed.

Lemma canonical_inj s t : canonical s -> canonical t -> qabs s = qabs t -> s = t.
Proof.
  destruct s as [sn sm], t as [tn tm]. unfold canonical, qabs; cbn [qneg qmag].
  intros (H1 & H2) (H3 & H4) E.
  destruct sn, tn; f_equal; lia.
Qed.

Definition q_run (s : qstate) (l : list Z) : qstate := fold_left q_add l s.
Definition zsum (l : list Z) : Z := fold_right Z.add 0 l.

Theorem q_run_exact l : forall s, qabs (q_run s l) = qabs s + zsum l.
Proof.
  unfold q_run, zsum. induction l as [|v l IH]; intro s; cbn [fold_left fold_right]; [lia|].
  rewrite IH, q_add_refines. lia.
Qed.

Theorem q_run_canonical l : forall s, canonical s -> canonical (q_run s l).
Proof.
  unfold q_run. induction l as [|v l IH]; intros s Hs; cbn [fold_left]; auto.
  apply IH, q_add_canonical, Hs.
Qed.

Lemma zsum_perm l l' : Permutation l l' -> zsum l = zsum l'.
Proof. unfold zsum. induction 1; cbn [fold_right] in *; lia. Qed.

(* order independence: any reordering of the accumulations gives the same quire state *)
Theorem q_run_perm s l l' : canonical s -> Permutation l l' -> q_run s l = q_run s l'.
Proof.
  intros Hs Hp. apply canonical_inj; try apply q_run_canonical; auto.
  rewrite !q_run_exact, (zsum_perm _ _ Hp). reflexivity.
Qed.

(* partition independence: accumulate parts into fresh quires, then add the quires *)
Theorem q_run_partition s l1 l2 : canonical s ->
  q_add (q_run s l1) (qabs (q_run q0 l2)) = q_run s (l1 ++ l2).
Proof.
  intro Hs. apply canonical_inj.
  - apply q_add_canonical, q_run_canonical, Hs.
  - apply q_run_canonical, Hs.
  - rewrite q_add_refines, !q_run_exact. unfold zsum. rewrite fold_right_app.
    change (qabs q0) with 0.
    assert (forall a b, fold_right Z.add b a = fold_right Z.add 0 a + b).
    { induction a; intros; cbn [fold_right]; [lia|]. rewrite IHa. lia. }
    rewrite (H l1 (fold_right Z.add 0 l2)). lia.
Qed.

Example sign_change_and_cancel :
  q_run q0 [5; -12; 7; -3; 3] = q0 /\ q_run q0 [5; -12] = {| qneg := true; qmag := 7 |}.
Proof. split; reflexivity. Qed.
Print Assumptions q_run_perm.
Print Assumptions q_run_partition.
