(* Executable model of cfloat<n, es, bt, sub, sup, sat>.
   Layout (universal's own): sign | es exponent bits | fb = n-1-es fraction bits.
   inf = s.1..1.1..10, nan = s.1..1.1..11 (sign 0 quiet, 1 signalling); without
   supernormals every other all-ones-exponent pattern is NaN; without subnormals
   every zero-exponent pattern reads as (signed) zero. *)
From Coq Require Import ZArith QArith Qabs Lia Bool List.
From UV Require Import RoundSpec RoundNE PositMono2 PositVal CfloatSpec Num Ops Verdict PositFast NativeJudge.
Import ListNotations.
Local Open Scope Z_scope.

Record cfcfg := mkCf { c_n : Z; c_es : Z; c_sub : bool; c_sup : bool; c_sat : bool }.

Section Cf.
Variable c : cfcfg.
Let n := c_n c. Let es := c_es c.
Definition cfb : Z := n - 1 - es.
Definition c_eall : Z := 2^es - 1.
Definition c_infm : Z := 2^(n-1) - 2.                 (* magnitude pattern of inf *)
Definition c_nanm : Z := 2^(n-1) - 1.
(* largest finite magnitude pattern *)
(* in a saturating configuration with supernormals the inf pattern is (by the documented design) a value: maxpos *)
Definition c_top : Z := if c_sup c then (if c_sat c then 2^(n-1) - 2 else 2^(n-1) - 3) else c_eall * 2^cfb - 1.
(* smallest non-zero magnitude pattern *)
Definition c_lo : Z := if c_sub c then 0 else 2^cfb.   (* offset of the index space: index i <-> pattern c_lo + i *)
Definition signbit (s : bool) : Z := if s then 2^(n-1) else 0.

Definition cf_decode (bits : Z) : num :=
  let m := bits mod 2^(n-1) in let s := Z.testbit bits (n-1) in
  let e := m / 2^cfb in
  if Z.eqb m c_infm && negb (c_sup c && c_sat c) then Inf s else
  if Z.eqb m c_nanm then NaN else
  if Z.eqb e c_eall && negb (c_sup c) then NaN else
  if Z.eqb e 0 && negb (c_sub c) then Fin s 0 else
  Fin s (cf_val n es m).

(* floor guess for a positive rational: exponent from the bit lengths, fraction by shifting *)
Definition cf_guess (q : Q) : Z :=
  let a := Qnum q in let b := Zpos (Qden q) in
  let s := qlog2 a b in
  let bias := 2^(es-1) - 1 in
  let eb := s + bias in
  if Z.leb 1 eb then
    let num := if Z.leb 0 s then Z.shiftl a cfb else Z.shiftl a (cfb - s) in
    let den := if Z.leb 0 s then Z.shiftl b s else b in
    eb * 2^cfb + (num / den - 2^cfb)
  else
    let sh := bias - 1 + cfb in
    (if Z.leb 0 sh then Z.shiftl a sh else Z.shiftr a (- sh)) / b.

Definition cval_i (i : Z) : Q := cf_val n es (c_lo + i).
Definition cpar_i (i : Z) : bool := Z.even (c_lo + i).

(* magnitude rounding: returns a magnitude pattern; c_top + 1 signals overflow *)
Definition cf_round_mag (q : Q) : Z :=
  if Qeq_bool q 0 then 0 else
  if negb (c_sub c) && Qlt_bool q (cf_val n es c_lo) then 0        (* flush: below the normal range *)
  else
    let N := c_top + 1 - c_lo in
    if Qle_bool (cval_i N) q then c_top + 1
    else c_lo + rne_g cval_i N cpar_i (mid cval_i) (cf_guess q - c_lo) q.

Definition cf_encode (x : num) : Z :=
  match x with
  | NaN => c_nanm
  | Inf s => signbit s + c_infm
  | Fin s q =>
      let m := cf_round_mag q in
      if Z.ltb c_top m then (if c_sat c then signbit s + c_top else signbit s + c_infm)
      else signbit s + m
  end.

(* was the value rounded / flushed / overflowed? *)
Definition cf_inexact (x : num) : bool :=
  match x with
  | Fin s q => match cf_decode (cf_encode x) with Fin _ q' => negb (Qeq_bool q q') | _ => true end
  | _ => true
  end.

(* ---- IEEE-style arithmetic on value classes ------------------------------ *)
Definition sQ (s : bool) (q : Q) : Q := if s then (- q)%Q else q.
Definition num_add (x y : num) : num :=
  match x, y with
  | NaN, _ | _, NaN => NaN
  | Inf s, Inf t => if Bool.eqb s t then Inf s else NaN
  | Inf s, _ => Inf s
  | _, Inf t => Inf t
  | Fin s p, Fin t q =>
      let r := Qred (sQ s p + sQ t q) in
      if Qeq_bool r 0 then Fin (s && t) 0 else num_of_Q r
  end.
Definition num_neg (x : num) : num :=
  match x with NaN => NaN | Inf s => Inf (negb s) | Fin s q => Fin (negb s) q end.
Definition num_mul (x y : num) : num :=
  match x, y with
  | NaN, _ | _, NaN => NaN
  | Inf s, Inf t => Inf (xorb s t)
  | Inf s, Fin t q => if Qeq_bool q 0 then NaN else Inf (xorb s t)
  | Fin s p, Inf t => if Qeq_bool p 0 then NaN else Inf (xorb s t)
  | Fin s p, Fin t q => Fin (xorb s t) (Qred (p * q))
  end.
Definition num_div (x y : num) : num :=
  match x, y with
  | NaN, _ | _, NaN => NaN
  | Inf s, Inf t => NaN
  | Inf s, Fin t q => Inf (xorb s t)
  | Fin s p, Inf t => Fin (xorb s t) 0
  | Fin s p, Fin t q =>
      if Qeq_bool q 0 then (if Qeq_bool p 0 then NaN else Inf (xorb s t))
      else Fin (xorb s t) (Qred (p / q))
  end.

Definition cf_add (a b : Z) : Z := cf_encode (num_add (cf_decode a) (cf_decode b)).
Definition cf_sub (a b : Z) : Z := cf_encode (num_add (cf_decode a) (num_neg (cf_decode b))).
Definition cf_mul (a b : Z) : Z := cf_encode (num_mul (cf_decode a) (cf_decode b)).
Definition cf_div (a b : Z) : Z := cf_encode (num_div (cf_decode a) (cf_decode b)).

(* comparison on value classes: IEEE (NaN unordered, +0 = -0) *)
Definition num_lt (x y : num) : bool :=
  match x, y with
  | NaN, _ | _, NaN => false
  | Inf s, Inf t => s && negb t
  | Inf s, Fin _ _ => s
  | Fin _ _, Inf t => negb t
  | Fin s p, Fin t q => Qlt_bool (sQ s p) (sQ t q)
  end.
Definition num_eq (x y : num) : bool :=
  match x, y with
  | NaN, _ | _, NaN => false
  | Inf s, Inf t => Bool.eqb s t
  | Fin s p, Fin t q => Qeq_bool (sQ s p) (sQ t q)
  | _, _ => false
  end.

Definition is_nan_enc (bits : Z) : bool := match cf_decode bits with NaN => true | _ => false end.
Definition is_zero_enc (bits : Z) : bool := match cf_decode bits with Fin _ q => Qeq_bool q 0 | _ => false end.
End Cf.

(* stepping: the adjacent representable value (None: not defined / not judged) *)
Definition cf_minm (c : cfcfg) : Z := if c_sub c then 1 else 2^(cfb c).
Definition cf_step (c : cfcfg) (up : bool) (bits : Z) : option Z :=
  match cf_decode c bits with
  | Fin s q =>
      let m := bits mod 2^(c_n c - 1) in
      if Qeq_bool q 0 then Some (signbit c (negb up) + cf_minm c)
      else if Bool.eqb s up
           then (* moving towards zero *) (if Z.eqb m (cf_minm c) then Some (signbit c s) else Some (signbit c s + m - 1))
           else (* moving away from zero *) (if Z.eqb m (c_top c) then None else Some (signbit c s + m + 1))
  | _ => None
  end.

(* acceptance of a result: by decoded value (non-zero finite values have one encoding, so this is
   bit-exact there); NaN expected -> any NaN encoding; zero -> any zero encoding, with either sign
   when the zero is a sum (zs) *)
Definition num_same (zs : bool) (x y : num) : bool :=
  match x, y with
  | NaN, NaN => true
  | Inf s, Inf t => Bool.eqb s t
  | Fin s p, Fin t q => Qeq_bool p q && (Bool.eqb s t || (zs && Qeq_bool p 0))
  | _, _ => false
  end.
Definition cf_accept (c : cfcfg) (zero_sign_free : bool) (expect got : Z) : bool :=
  Z.eqb expect got || (Z.leb 0 got && Z.ltb got (2^(c_n c)) && num_same zero_sign_free (cf_decode c expect) (cf_decode c got)).

Definition cfg_of (cfg : list Z) : cfcfg :=
  mkCf (nth0 cfg 0) (nth0 cfg 1) (Z.eqb (nth0 cfg 2) 1) (Z.eqb (nth0 cfg 3) 1) (Z.eqb (nth0 cfg 4) 1).

Definition cf_is_special (c : cfcfg) (a : Z) : bool :=
  match cf_decode c a with Fin _ q => Qeq_bool q 0 | _ => true end.

Definition judge_cfloat (cfg : list Z) (op : Z) (args res : list Z) : verdict :=
  let c := cfg_of cfg in
  let a := nth0 args 0 in let b := nth0 args 1 in let r := nth0 res 0 in
  let one := Z.eqb (Z.of_nat (length res)) 1 in
  let arith (zs : bool) (e : Z) (x : num) := mkV (one && cf_accept c zs e r) [e] (cf_is_special c a || cf_is_special c b || cf_inexact c x) in
  let exact (e : list Z) (nt : bool) := mkV (list_eqb e res) e nt in
  let da := cf_decode c a in let db := cf_decode c b in
  if Z.eqb op OP_add then arith true (cf_add c a b) (num_add da db) else
  if Z.eqb op OP_sub then arith true (cf_sub c a b) (num_add da (num_neg db)) else
  if Z.eqb op OP_mul then arith false (cf_mul c a b) (num_mul da db) else
  if Z.eqb op OP_div then arith false (cf_div c a b) (num_div da db) else
  if Z.eqb op OP_neg then (let e := Z.lxor a (signbit c true) in mkV (one && cf_accept c false e r) [e] true) else
  if Z.eqb op OP_inc then match cf_step c true a with Some e => mkV (one && cf_accept c true e r) [e] true | None => mkV true res false end else
  if Z.eqb op OP_dec then match cf_step c false a with Some e => mkV (one && cf_accept c true e r) [e] true | None => mkV true res false end else
  if Z.eqb op OP_lt then exact [b2z (num_lt da db)] true else
  if Z.eqb op OP_gt then exact [b2z (num_lt db da)] true else
  if Z.eqb op OP_le then exact [b2z (num_lt da db || num_eq da db)] true else
  if Z.eqb op OP_ge then exact [b2z (num_lt db da || num_eq da db)] true else
  if Z.eqb op OP_eq then exact [b2z (num_eq da db)] true else
  if Z.eqb op OP_ne then exact [b2z (negb (num_eq da db))] true else
  if Z.eqb op OP_from_f64 then (let e := cf_encode c (f64_decode a) in mkV (one && cf_accept c false e r) [e] true) else
  if Z.eqb op OP_from_f32 then (let e := cf_encode c (f32_decode a) in mkV (one && cf_accept c false e r) [e] true) else
  if Z.eqb op OP_from_int then (let e := cf_encode c (num_of_Q (inject_Z (int_decode true a b))) in mkV (one && cf_accept c false e r) [e] true) else
  if Z.eqb op OP_from_uint then (let e := cf_encode c (num_of_Q (inject_Z (int_decode false a b))) in mkV (one && cf_accept c false e r) [e] true) else
  if Z.eqb op OP_to_f64 then judge_to_f64 da res else
  if Z.eqb op OP_to_f32 then judge_to_f32 da res else
  if Z.eqb op OP_to_f64_rt then
    if negb (ieee_exact 11 52 da) then mkV true res false else
    (* round trip through double returns the same encoding (NaN: any NaN; non-canonical zeros of
       a no-subnormal configuration: any zero of the same sign) *)
    match da with
    | NaN => mkV (is_nan_enc c r) [a] true
    | Fin s q => if Qeq_bool q 0 then mkV (match cf_decode c r with Fin s' q' => Bool.eqb s s' && Qeq_bool q' 0 | _ => false end) [a] true
                 else exact [a] true
    | _ => exact [a] true
    end else
  if Z.eqb op OP_conv then    (* cfloat -> cfloat: cfg = source cfg (6 entries) ++ target cfg *)
    (let c2 := cfg_of (skipn 6 cfg) in let e := cf_encode c2 da in mkV (one && cf_accept c2 true e r) [e] true) else
  if Z.eqb op OP_to_int then   (* args: width, bits; truncation toward zero when it fits *)
    match cf_decode c b with
    | Fin s q => let z := (if s then - (Qnum q / Zpos (Qden q)) else Qnum q / Zpos (Qden q)) in
                 if Z.leb (- 2^(a-1)) z && Z.ltb z (2^(a-1)) then exact [wrap a z] true else mkV true res false
    | _ => mkV true res false
    end else
  mkV false [] false.
