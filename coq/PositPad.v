From Coq Require Import ZArith QArith Lia Lqa Bool.
From UV Require Import PositMono PositMono2 PositVal.
Local Open Scope Z_scope.

Lemma log2_double p : 0 < p -> Z.log2 (2*p) = Z.log2 p + 1.
Proof. intro H. rewrite Z.log2_double by lia. lia. Qed.

Lemma log2_double_plus1 q : 0 < q -> Z.log2 (2*q+1) = Z.log2 q + 1.
Proof. intro H. rewrite Z.log2_succ_double by lia. lia. Qed.

Lemma Y_pad L p : 1 <= L -> 0 < p -> p < 2^L -> Y (L+1) (2*p) = 2 * Y L p.
Proof.
  intros HL Hp Hhi.
  assert (E1 : 2^(L+1) = 2 * 2^L) by (rewrite Z.pow_add_r by lia; change (2^1) with 2; ring).
  assert (E0 : 2^L = 2 * 2^(L-1)).
  { replace L with (Z.succ (L-1)) at 1 by lia. apply Z.pow_succ_r; lia. }
  unfold Y. replace (L + 1 - 1) with L by lia.
  destruct (Z.ltb_spec p (2^(L-1))); destruct (Z.ltb_spec (2*p) (2^L)); try lia.
  - unfold Ylow. rewrite log2_double by lia.
    replace (L + 1 - (Z.log2 p + 1)) with (L - Z.log2 p) by lia. rewrite E1. ring.
  - unfold Yhigh. rewrite E1.
    replace (2 * 2^L - 2 * p) with (2 * (2^L - p)) by ring.
    set (q1 := 2^L - p). assert (Hq : 1 <= q1) by (unfold q1; lia).
    destruct (Z.eqb_spec (2 * q1) 1); [lia|].
    destruct (Z.eqb_spec q1 1) as [Hq1|Hq1].
    + rewrite Hq1. change (Z.log2 (2 * 1 - 1)) with 0.
      replace (L + 1 - 0) with (L + 1) by lia. rewrite E1. ring.
    + replace (2 * q1 - 1) with (2 * (q1 - 1) + 1) by ring.
      rewrite log2_double_plus1 by lia.
      set (r := Z.log2 (q1 - 1)).
      replace (L + 1 - (r + 1)) with (L - r) by lia. ring.
Qed.

Lemma valX_pad L X : 0 <= L -> (valX (L+1) (2*X) == valX L X)%Q.
Proof.
  intro HL. unfold valX.
  assert (PL : 0 < 2^L) by (apply Z.pow_pos_nonneg; lia).
  assert (E1 : 2^(L+1) = 2 * 2^L) by (rewrite Z.pow_add_r by lia; change (2^1) with 2; ring).
  rewrite E1.
  rewrite Z.div_mul_cancel_l by lia.
  rewrite Zmult_mod_distr_l.
  replace (2 * 2^L + 2 * (X mod 2^L)) with (2 * (2^L + X mod 2^L)) by ring.
  rewrite !inject_Z_mult.
  assert (QL := inject_pow2_pos L HL).
  field. lra.
Qed.

Theorem pos_val_pad n es p : 2 <= n -> 0 <= es -> 0 < p -> p < 2^(n-1) ->
  (pos_val (n+1) es (2*p) == pos_val n es p)%Q.
Proof.
  intros Hn Hes Hp Hhi. unfold pos_val. cbv zeta.
  replace (n + 1 - 1) with ((n - 1) + 1) by lia.
  rewrite Y_pad by lia.
  replace (2 * Y (n-1) p * 2^es) with (2 * (Y (n-1) p * 2^es)) by ring.
  apply (valX_pad (n-1) (Y (n-1) p * 2^es)). lia.
Qed.

(* the Posit-Standard threshold (the (n+1)-bit posit u1) lies strictly between neighbours *)
Theorem posit_thr_between n es u : 2 <= n -> 0 <= es -> 0 < u -> u + 1 < 2^(n-1) ->
  (pos_val n es u < pos_val (n+1) es (2*u+1) /\ pos_val (n+1) es (2*u+1) < pos_val n es (u+1))%Q.
Proof.
  intros Hn Hes Hu Hhi.
  assert (E1 : 2^(n+1-1) = 2 * 2^(n-1)).
  { replace (n+1-1) with ((n-1)+1) by lia. rewrite Z.pow_add_r by lia. change (2^1) with 2. ring. }
  rewrite <- (pos_val_pad n es u) by lia.
  rewrite <- (pos_val_pad n es (u+1)) by lia.
  split; apply pos_val_mono; lia.
Qed.
Print Assumptions posit_thr_between.
