(* C05 -- quire accumulation is exact, order-independent and rounded once.
   Statements only.  State machine: QuireSpec.v (sign-magnitude fixed point, units of 2^-half_range,
   with the sign/magnitude case split of quire.hpp); per-step judge and rounding: QuireModel.v. *)
From Coq Require Import ZArith QArith List Permutation.
From UV Require Import PositSpec PositFast QuireSpec QuireModel.
Import ListNotations.
Local Open Scope Z_scope.

(* every step adds exactly the accumulated value (refinement to the integers) *)
Theorem C05_step_exact : forall s v, qabs (q_add s v) = qabs s + v.
Proof. exact q_add_refines. Qed.
Print Assumptions C05_step_exact.
(* any history yields exactly the mathematical sum, including cancellation and sign changes *)
Theorem C05_history_exact : forall l s, qabs (q_run s l) = qabs s + zsum l.
Proof. exact q_run_exact. Qed.
Print Assumptions C05_history_exact.
(* the state stays canonical (no negative zero), so equal sums mean identical bit patterns *)
Theorem C05_canonical : forall l s, canonical s -> canonical (q_run s l).
Proof. exact q_run_canonical. Qed.
Print Assumptions C05_canonical.
Theorem C05_state_determined_by_value : forall s t, canonical s -> canonical t -> qabs s = qabs t -> s = t.
Proof. exact canonical_inj. Qed.
Print Assumptions C05_state_determined_by_value.
(* order independence *)
Theorem C05_permutation : forall s l l', canonical s -> Permutation l l' -> q_run s l = q_run s l'.
Proof. exact q_run_perm. Qed.
Print Assumptions C05_permutation.
(* partition independence: partial quires added together give the same state *)
Theorem C05_partition : forall s l1 l2, canonical s -> q_add (q_run s l1) (qabs (q_run q0 l2)) = q_run s (l1 ++ l2).
Proof. exact q_run_partition. Qed.
Print Assumptions C05_partition.
(* conversion to a posit is one application of the Posit-Standard rounding (the fast evaluation used
   by the judge equals the specification rounding) *)
Theorem C05_single_rounding : forall n es, 2 <= n -> 0 <= es -> forall x, pround_f n es x = pround n es x.
Proof. exact pround_f_eq. Qed.
Print Assumptions C05_single_rounding.

Example C05_witness :
  q_run q0 [5; -12; 7; -3; 3] = q0 /\ q_run q0 [5; -12] = {| qneg := true; qmag := 7 |} /\
  q_units 8 0 (1 # 4096) = Some 1 /\ q_hr 8 0 = 12.
Proof. vm_compute. repeat split; reflexivity. Qed.
