(* C18 -- areal conversion encloses the source value (uncertainty bit semantics).
   Statements only.  Model: ArealModel.v; every geometry es >= 1, n > es + 2. *)
From Coq Require Import ZArith QArith.
From UV Require Import CfloatSpec Num ArealModel ArealProps.
Local Open Scope Z_scope.

(* the encoding produced for any finite source (sign s, magnitude q >= 0) passes the enclosure check ... *)
Theorem C18_conversion_encloses : forall n es, 1 <= es -> es + 2 < n -> forall s q, (0 <= q)%Q ->
  a_encloses n es q s (a_encode n es (Fin s q)) = true.
Proof. exact areal_encloses. Qed.
Print Assumptions C18_conversion_encloses.

(* ... and the check is the property: sign preserved; ubit clear -> the value is exactly the source;
   ubit set -> the source is strictly between this exact value and the next one away from zero
   (no upper neighbour above the largest finite value: the open interval above maxpos) *)
Theorem C18_enclosure_meaning : forall n es, 1 <= es -> es + 2 < n -> forall q s bits, a_encloses n es q s bits = true ->
  let m := (bits / 2) mod 2^(n-2) in
  Z.testbit bits (n-1) = s /\ m <= a_maxm n /\
  (Z.odd bits = false -> (a_val n es m == q)%Q) /\
  (Z.odd bits = true -> (a_val n es m < q)%Q /\ (m < a_maxm n -> (q < a_val n es (m+1))%Q)).
Proof. exact a_encloses_sound. Qed.
Print Assumptions C18_enclosure_meaning.

Theorem C18_exact_lattice_order : forall n es, 1 <= es -> es + 2 < n -> forall i j, 0 <= i -> i < j ->
  (a_val n es i < a_val n es j)%Q.
Proof. exact a_val_mono. Qed.
Print Assumptions C18_exact_lattice_order.

Example C18_witness :
  a_encode 8 2 (Fin false (3#2)) = 0x30 /\ a_encode 8 2 (Fin false (151#100)) = 0x31 /\ a_encode 8 2 (Fin true (1000#1)) = 0xfd
  /\ a_encode 8 2 (Fin false (1#1000)) = 0x01 /\ a_encode 8 2 (Inf true) = 0xfe /\ a_encloses 8 2 (151#100) false 0x31 = true
  /\ a_encloses 8 2 (151#100) false 0x33 = false.
Proof. vm_compute. repeat split; reflexivity. Qed.
