(* Correctly rounded square root, by the generic rounding over the *squared* valuation: for a positive,
   strictly increasing valuation val, c |-> (val c)^2 is strictly increasing too, so
   rne (val^2) (thr^2) x is the index the round-to-nearest-even of sqrt x selects -- no reals needed. *)
From Coq Require Import ZArith QArith Qabs Lia Bool List.
From UV Require Import RoundSpec RoundNE PositMono2 PositVal PositSpec CfloatSpec Num Ops Verdict PositModel PositFast CfloatModel FixpntModel.
Import ListNotations.
Local Open Scope Z_scope.

Definition Qsq (x : Q) : Q := (x * x)%Q.

(* rational approximation of sqrt (a/b) from below-ish, only used as a guess *)
Definition qsqrt_guess (x : Q) (k : Z) : Q :=
  let a := Qnum x in let b := Zpos (Qden x) in
  Qmake (Z.sqrt (a * b * 2^(2*k))) (Z.to_pos (b * 2^k)).

(* ---- posit ---- *)
Definition psqrt_pos (n es : Z) (x : Q) : Z :=
  rne_g (fun i => Qsq (ival n es i)) (M n - 1) ipar (fun u => Qsq (ithr n es u))
        (pguess n es (qsqrt_guess x (n + 8)) - 1) x + 1.
Definition psqrt (n es a : Z) : Z :=
  match pval n es a with
  | None => nar n
  | Some x => match Qcompare x 0 with
              | Lt => nar n
              | Eq => 0
              | Gt => psqrt_pos n es x
              end
  end.

(* ---- cfloat (finite positive x); specials handled by the caller ---- *)
Definition cf_sqrt_mag (c : cfcfg) (q : Q) : Z :=
  (* sqrt of a positive finite value of the format is always within the finite range *)
  if negb (c_sub c) && Qlt_bool q (Qsq (cf_val (c_n c) (c_es c) (c_lo c))) then 0
  else
    let N := c_top c + 1 - c_lo c in
    c_lo c + rne_g (fun i => Qsq (cval_i c i)) N (cpar_i c) (fun u => Qsq (mid (cval_i c) u))
                   (cf_guess c (qsqrt_guess q (c_n c + 8)) - c_lo c) q.
Definition cf_sqrt (c : cfcfg) (a : Z) : Z :=
  match cf_decode c a with
  | NaN => c_nanm c
  | Inf s => if s then c_nanm c else signbit c false + c_infm c
  | Fin s q => if Qeq_bool q 0 then a                       (* sqrt(+-0) = +-0 *)
               else if s then c_nanm c
               else signbit c false + cf_sqrt_mag c q
  end.

(* ---- fixpnt: value a / 2^r, a >= 0; result raw integer t with t^2 <= a*2^r (floor) and the RNE one ---- *)
Definition fx_sqrt_floor (r a : Z) : Z := Z.sqrt (a * 2^r).
Definition fx_sqrt_rne (r a : Z) : Z :=
  let t := Z.sqrt (a * 2^r) in
  (* compare (t + 1/2)^2 = t^2 + t + 1/4 with a*2^r: round up iff a*2^r > t^2 + t *)
  if Z.ltb (t * t + t) (a * 2^r) then t + 1 else t.

(* ---- judges (C17): <= 16 bits exactly the correctly rounded root; wider: one of the two neighbours ---- *)
Definition judge_sqrt_cfloat (cfg : list Z) (args res : list Z) : verdict :=
  let c := cfg_of cfg in let a := nth0 args 0 in let r := nth0 res 0 in
  let e := cf_sqrt c a in
  let one := Z.eqb (Z.of_nat (length res)) 1 in
  if Z.leb (c_n c) 16 then mkV (one && cf_accept c false e r) [e] true
  else mkV (one && (cf_accept c false e r || cf_accept c false (e + 1) r || cf_accept c false (e - 1) r)) [e] true.
Definition judge_sqrt_fixpnt (cfg : list Z) (args res : list Z) : verdict :=
  let n := nth0 cfg 0 in let r := nth0 cfg 1 in
  let a := sgn n (nth0 args 0) in
  if Z.ltb a 0 then mkV true res false          (* negative argument: the documented exception / not judged here *)
  else
    let e := wrap n (fx_sqrt_rne r a) in let f := wrap n (fx_sqrt_floor r a) in
    if Z.leb n 16 then mkV (list_eqb [e] res) [e] true
    else mkV (list_eqb [f] res || list_eqb [wrap n (fx_sqrt_floor r a + 1)] res) [e] true.
Definition judge_sqrt_integer (cfg : list Z) (args res : list Z) : verdict :=
  let n := nth0 cfg 0 in let a := sgn n (nth0 args 0) in
  if Z.ltb a 0 then mkV true res false else mkV (list_eqb [Z.sqrt a] res) [Z.sqrt a] true.
