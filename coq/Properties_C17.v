(* C17 -- sqrt is correctly rounded on small formats, faithful elsewhere, and total.
   Model: SqrtModel.v -- the correctly rounded root is the generic nearest-even rounding taken over the
   squared valuation (no reals).  The table-driven specialisations are re-extracted from the headers on
   every run (Tables.v) and every entry is checked by the kernel. *)
From Coq Require Import ZArith QArith List Bool Lia.
From UV Require Import PositMono2 PositSpec Num PositModel PositFast SqrtModel Tables TableCheck FixpntModel.
Local Open Scope Z_scope.

Theorem C17_posit_root_tables :
  tbl_unary_ok 4 (psqrt 3 0) tbl_posit_3_0_roots && tbl_unary_ok 4 (psqrt 3 1) tbl_posit_3_1_roots &&
  tbl_unary_ok 8 (psqrt 4 0) tbl_posit_4_0_roots && tbl_unary_ok 16 (psqrt 5 0) tbl_posit_5_0_roots &&
  tbl_unary_ok 128 (psqrt 8 0) tbl_posit_8_0_roots && tbl_unary_ok 128 (psqrt 8 1) tbl_posit_8_1_roots = true.
Proof. vm_compute. reflexivity. Qed.
Print Assumptions C17_posit_root_tables.

(* integer / fixed-point roots: floor and round-to-nearest of the exact root, stated with squares *)
Theorem C17_floor_root : forall r a, 0 <= r -> 0 <= a ->
  let t := fx_sqrt_floor r a in t * t <= a * 2^r < (t + 1) * (t + 1).
Proof. intros r a Hr Ha. cbv zeta. unfold fx_sqrt_floor. apply Z.sqrt_spec. assert (0 < 2^r) by (apply Z.pow_pos_nonneg; lia). apply Z.mul_nonneg_nonneg; lia. Qed.
Print Assumptions C17_floor_root.
Theorem C17_nearest_root : forall r a, 0 <= r -> 0 <= a ->
  let t := fx_sqrt_rne r a in let f := fx_sqrt_floor r a in
  (t = f \/ t = f + 1) /\ (4 * (a * 2^r) <= (2 * t + 1) * (2 * t + 1)) /\ ((2 * t - 1) * (2 * t - 1) < 4 * (a * 2^r) \/ t = 0).
Proof.
  intros r a Hr Ha. cbv zeta. unfold fx_sqrt_rne, fx_sqrt_floor.
  assert (P : 0 < 2^r) by (apply Z.pow_pos_nonneg; lia).
  assert (X0 : 0 <= a * 2^r) by (apply Z.mul_nonneg_nonneg; lia).
  assert (S := Z.sqrt_spec (a * 2^r) X0). assert (N := Z.sqrt_nonneg (a * 2^r)).
  set (x := a * 2^r) in *. set (t := Z.sqrt x) in *.
  destruct S as [S1 S2']. assert (S2 : x < t * t + 2 * t + 1) by (unfold Z.succ in S2'; nia).
  destruct (Z.ltb_spec (t * t + t) x).
  - split; [right; reflexivity|]. split; [nia|]. left. nia.
  - split; [left; reflexivity|]. split; [nia|].
    destruct (Z.eq_dec t 0) as [E|E]; [right; exact E|left; nia].
Qed.
Print Assumptions C17_nearest_root.
Theorem C17_perfect_squares_exact : forall r t, 0 <= r -> 0 <= t -> Z.even r = true ->
  fx_sqrt_floor r (t * t * 2^r) = t * 2^r.
Proof.
  intros r t Hr Ht Ev. unfold fx_sqrt_floor.
  replace (t * t * 2^r * 2^r) with ((t * 2^r) * (t * 2^r)) by ring.
  apply Z.sqrt_square. assert (0 < 2^r) by (apply Z.pow_pos_nonneg; lia). nia.
Qed.
Print Assumptions C17_perfect_squares_exact.

Example C17_witness : psqrt 8 0 0x50 = 0x47 /\ psqrt 8 1 0x80 = 0x80 /\ psqrt 8 1 0xc0 = 0x80 /\ psqrt 16 1 0x5000 = 0x46a1 /\ psqrt 8 2 0 = 0
  /\ fx_sqrt_rne 4 0x20 = 0x17 /\ fx_sqrt_floor 0 17 = 4 /\ psqrt 8 0 0x60 = 0x4d.
Proof. vm_compute. repeat split; reflexivity. Qed.
