(* C02 -- cfloat arithmetic is correctly rounded IEEE-style for every operand and config.
   Statements only.  Model: CfloatModel.v; geometry: CfloatSpec.v.  Every statement is for every
   cfloat geometry (es >= 1, n > es + 1) and every subnormal/supernormal/saturating flag combination. *)
From Coq Require Import ZArith QArith Qabs.
From UV Require Import CfloatSpec Num CfloatModel CfloatProps.
Local Open Scope Z_scope.

(* the value order of magnitudes is the order of their encodings (normal, subnormal and supernormal segments) *)
Theorem C02_value_order : forall n es, 1 <= es -> es + 1 < n -> forall m m', 0 <= m -> m < m' ->
  (cf_val n es m < cf_val n es m')%Q.
Proof. exact cf_val_mono. Qed.
Print Assumptions C02_value_order.

(* rounding: nearest, ties to the even encoding, over the finite values extended with the first value
   beyond the range -- i.e. a result overflows iff it is at least maxpos + ulp/2 *)
Theorem C02_round_nearest_even : forall c, 1 <= c_es c -> c_es c + 1 < c_n c -> forall q,
  ~ (q == 0)%Q -> (cf_val (c_n c) (c_es c) (c_lo c) <= q)%Q -> (q < cf_val (c_n c) (c_es c) (c_top c + 1))%Q ->
  let m := cf_round_mag c q in
  c_lo c <= m <= c_top c + 1 /\
  (forall j, c_lo c <= j <= c_top c + 1 -> (Qabs (q - cf_val (c_n c) (c_es c) m) <= Qabs (q - cf_val (c_n c) (c_es c) j))%Q) /\
  (forall j, c_lo c <= j <= c_top c + 1 -> j <> m ->
     (Qabs (q - cf_val (c_n c) (c_es c) m) == Qabs (q - cf_val (c_n c) (c_es c) j))%Q -> Z.even m = true).
Proof. exact cf_round_mag_nearest. Qed.
Print Assumptions C02_round_nearest_even.

Theorem C02_representable_is_fixed : forall c, 1 <= c_es c -> c_es c + 1 < c_n c -> forall m,
  c_lo c <= m <= c_top c -> 0 < m -> cf_round_mag c (cf_val (c_n c) (c_es c) m) = m.
Proof. exact cf_round_mag_exact. Qed.
Print Assumptions C02_representable_is_fixed.

(* without subnormals, results below the normal range are flushed to (signed) zero *)
Theorem C02_flush_to_zero : forall c q, c_sub c = false -> (q < cf_val (c_n c) (c_es c) (c_lo c))%Q -> cf_round_mag c q = 0.
Proof. exact cf_flush. Qed.
Print Assumptions C02_flush_to_zero.

(* beyond the range: +-inf, or +-maxpos in a saturating configuration (never inf/NaN there) *)
Theorem C02_overflow : forall c, 1 <= c_es c -> c_es c + 1 < c_n c -> forall s q,
  (cf_val (c_n c) (c_es c) (c_top c + 1) <= q)%Q ->
  cf_encode c (Fin s q) = if c_sat c then signbit c s + c_top c else signbit c s + c_infm c.
Proof. exact cf_overflow. Qed.
Print Assumptions C02_overflow.

(* inf-inf, 0*inf, 0/0, inf/inf are NaN; x/0 is +-inf; NaN operands give NaN *)
Theorem C02_ieee_specials :
  (forall s, num_add (Inf s) (Inf (negb s)) = NaN) /\
  (forall s t q, Qeq_bool q 0 = true -> num_mul (Inf s) (Fin t q) = NaN /\ num_mul (Fin t q) (Inf s) = NaN) /\
  (forall s t p q, Qeq_bool p 0 = true -> Qeq_bool q 0 = true -> num_div (Fin s p) (Fin t q) = NaN) /\
  (forall s t, num_div (Inf s) (Inf t) = NaN) /\
  (forall s t p q, Qeq_bool p 0 = false -> Qeq_bool q 0 = true -> num_div (Fin s p) (Fin t q) = Inf (xorb s t)) /\
  (forall x, num_add NaN x = NaN /\ num_add x NaN = NaN /\ num_mul NaN x = NaN /\ num_mul x NaN = NaN /\
             num_div NaN x = NaN /\ num_div x NaN = NaN).
Proof. exact num_specials. Qed.
Print Assumptions C02_ieee_specials.

Theorem C02_zero_sign_is_xor : forall s t p q,
  (Qeq_bool (Qred (p * q)) 0 = true -> num_mul (Fin s p) (Fin t q) = Fin (xorb s t) (Qred (p * q))) /\
  (Qeq_bool q 0 = false -> num_div (Fin s p) (Fin t q) = Fin (xorb s t) (Qred (p / q))) /\
  (num_div (Fin s p) (Inf t) = Fin (xorb s t) 0).
Proof. exact num_zero_sign. Qed.
Print Assumptions C02_zero_sign_is_xor.

(* non-vacuity: half-precision and quarter-precision instances evaluated by the kernel *)
Example C02_witness :
  let half := mkCf 16 5 true false false in let q8 := mkCf 8 2 true false false in let q8s := mkCf 8 2 true false true in
  cf_add half 0x3c00 0x3c00 = 0x4000 /\ cf_mul half 0x7bff 0x4000 = 0x7ffe /\ cf_div half 0x3c00 0x0000 = 0x7ffe
  /\ cf_add q8 0x5f 0x5f = 0x7e /\ cf_add q8s 0x5f 0x5f = 0x5f /\ cf_mul q8 0x01 0x10 = 0x00 /\ cf_sub half 0x7ffe 0x7ffe = 0x7fff.
Proof. vm_compute. repeat split; reflexivity. Qed.
