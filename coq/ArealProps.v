(* Theorem about the areal model: the conversion encloses the source (uncertainty-bit semantics),
   for every geometry (es >= 1, n > es + 2) and every non-negative magnitude. *)
From Coq Require Import ZArith QArith Qabs Lia Lqa Bool List.
From UV Require Import RoundSpec RoundNE PositMono2 PositVal CfloatSpec Num Verdict PositFast CfloatModel ArealModel IntProps.
Local Open Scope Z_scope.

Section AP.
Variables n es : Z.
Hypothesis Hes : 1 <= es.
Hypothesis Hn : es + 2 < n.

Lemma a_val_mono i j : 0 <= i -> i < j -> (a_val n es i < a_val n es j)%Q.
Proof. intros. unfold a_val. apply cf_val_mono; lia. Qed.
Lemma a_maxm_nonneg : 0 <= a_maxm n.
Proof. unfold a_maxm. assert (2^1 <= 2^(n-2)) by (apply Z.pow_le_mono_r; lia). change (2^1) with 2 in H. lia. Qed.
Lemma a_val_0 : (a_val n es 0 == 0)%Q.
Proof.
  unfold a_val, cf_val, V. rewrite Z.div_0_l, Zmod_0_l by (assert (0 < 2^(CfloatSpec.fb (n-1) es)) by (apply Z.pow_pos_nonneg; unfold CfloatSpec.fb; lia); lia).
  cbn. ring.
Qed.

(* the floor pattern: val m <= q, and q < val (m+1) unless m is the largest finite pattern *)
Lemma a_floor_spec q : (0 <= q)%Q ->
  let m := a_floor n es q in
  0 <= m <= a_maxm n /\ (a_val n es m <= q)%Q /\ (m < a_maxm n -> (q < a_val n es (m + 1))%Q).
Proof.
  intro Hq. cbv zeta. unfold a_floor. assert (HM := a_maxm_nonneg).
  destruct (Qle_bool (a_val n es (a_maxm n)) q) eqn:E.
  - apply Qle_bool_iff in E. repeat split; try lia; auto.
  - assert (Hlt : (q < a_val n es (a_maxm n))%Q).
    { apply Qnot_le_lt. intro Hc. apply Qle_bool_iff in Hc. congruence. }
    assert (H0 : (a_val n es 0 <= q)%Q) by (rewrite a_val_0; exact Hq).
    rewrite (fl_g_eq (a_val n es) (a_maxm n) HM (fun i j Hi Hij _ => a_val_mono i j Hi Hij) _ q H0).
    destruct (fl_spec (a_val n es) (a_maxm n) HM (fun i j Hi Hij _ => a_val_mono i j Hi Hij) q H0) as ((F1 & F2) & F3 & F4).
    repeat split; auto. intro Hm. apply F4; lia.
Qed.

Lemma enc_fields (s : bool) m u : 0 <= m < 2^(n-2) -> (u = 0 \/ u = 1) ->
  let bits := (if s then 2^(n-1) else 0) + 2 * m + u in
  Z.testbit bits (n-1) = s /\ (bits / 2) mod 2^(n-2) = m /\ Z.odd bits = Z.eqb u 1.
Proof.
  intros Hm Hu. cbv zeta.
  assert (P : 2^(n-1) = 2 * 2^(n-2)).
  { replace (n-1) with (Z.succ (n-2)) by lia. rewrite Z.pow_succ_r by lia. reflexivity. }
  assert (P0 : 0 < 2^(n-2)) by (apply Z.pow_pos_nonneg; lia).
  split; [|split].
  - rewrite Z.testbit_eqb by lia. destruct s.
    + replace ((2^(n-1) + 2 * m + u) / 2^(n-1)) with 1; [reflexivity|].
      apply Z.div_unique with (r := 2 * m + u); lia.
    + rewrite Z.div_small by lia. reflexivity.
  - destruct s.
    + replace ((2^(n-1) + 2 * m + u) / 2) with (2^(n-2) + m) by (apply Z.div_unique with (r := u); lia).
      rewrite Z.add_comm. replace (2^(n-2)) with (1 * 2^(n-2)) at 1 by ring. rewrite Z.mod_add by lia. apply Z.mod_small; lia.
    + replace ((0 + 2 * m + u) / 2) with m by (apply Z.div_unique with (r := u); lia). apply Z.mod_small; lia.
  - destruct Hu as [-> | ->]; destruct s; rewrite ?P.
    + replace (2 * 2^(n-2) + 2 * m + 0) with (2 * (2^(n-2) + m)) by ring. rewrite Z.odd_mul. reflexivity.
    + replace (0 + 2 * m + 0) with (2 * m) by ring. rewrite Z.odd_mul. reflexivity.
    + replace (2 * 2^(n-2) + 2 * m + 1) with (1 + 2 * (2^(n-2) + m)) by ring. rewrite Z.odd_add_mul_2. reflexivity.
    + replace (0 + 2 * m + 1) with (1 + 2 * m) by ring. rewrite Z.odd_add_mul_2. reflexivity.
Qed.

(* C18: the encoding produced for a finite source encloses it *)
Theorem areal_encloses s q : (0 <= q)%Q -> a_encloses n es q s (a_encode n es (Fin s q)) = true.
Proof.
  intro Hq. destruct (a_floor_spec q Hq) as ((M1 & M2) & M3 & M4).
  unfold a_encode. set (m := a_floor n es q) in *.
  assert (Hm : 0 <= m < 2^(n-2)) by (unfold a_maxm in M2; lia).
  unfold a_encloses.
  destruct (Qeq_bool (a_val n es m) q) eqn:E.
  - destruct (enc_fields s m 0 Hm (or_introl eq_refl)) as (B1 & B2 & B3). cbv zeta in *.
    rewrite B1, B2, B3. cbn [Z.eqb]. rewrite E.
    rewrite eqb_reflx. destruct (Z.leb_spec m (a_maxm n)); [reflexivity|lia].
  - destruct (enc_fields s m 1 Hm (or_intror eq_refl)) as (B1 & B2 & B3). cbv zeta in *.
    rewrite B1, B2, B3. cbn [Z.eqb Pos.eqb].
    rewrite eqb_reflx. destruct (Z.leb_spec m (a_maxm n)); [|lia]. cbn [andb].
    assert (Hlt : (a_val n es m < q)%Q).
    { apply Qle_lt_or_eq in M3. destruct M3 as [|Heq]; [assumption|]. apply Qeq_bool_iff in Heq. congruence. }
    assert (L1 : Qlt_bool (a_val n es m) q = true).
    { unfold Qlt_bool. apply negb_true_iff. destruct (Qle_bool q (a_val n es m)) eqn:C; [|reflexivity].
      apply Qle_bool_iff in C. lra. }
    rewrite L1. cbn [andb].
    destruct (Z.eqb_spec m (a_maxm n)); [reflexivity|]. cbn [orb].
    unfold Qlt_bool. apply negb_true_iff. destruct (Qle_bool (a_val n es (m+1)) q) eqn:C; [|reflexivity].
    apply Qle_bool_iff in C. assert (q < a_val n es (m+1))%Q by (apply M4; lia). lra.
Qed.

(* and the checker means what the property says *)
Theorem a_encloses_sound q s bits : a_encloses n es q s bits = true ->
  let m := (bits / 2) mod 2^(n-2) in
  Z.testbit bits (n-1) = s /\ m <= a_maxm n /\
  (Z.odd bits = false -> (a_val n es m == q)%Q) /\
  (Z.odd bits = true -> (a_val n es m < q)%Q /\ (m < a_maxm n -> (q < a_val n es (m+1))%Q)).
Proof.
  unfold a_encloses. cbv zeta. intro H.
  apply andb_prop in H. destruct H as [H H3]. apply andb_prop in H. destruct H as [H1 H2].
  apply eqb_prop in H1. apply Z.leb_le in H2.
  split; [auto|]. split; [assumption|]. split.
  - intro Ho. rewrite Ho in H3. apply Qeq_bool_iff in H3. exact H3.
  - intro Ho. rewrite Ho in H3. apply andb_prop in H3. destruct H3 as [A B].
    unfold Qlt_bool in *. apply negb_true_iff in A.
    split.
    + apply Qnot_le_lt. intro C. apply Qle_bool_iff in C. congruence.
    + intro Hm. apply orb_prop in B. destruct B as [B|B]; [apply Z.eqb_eq in B; lia|].
      apply negb_true_iff in B. apply Qnot_le_lt. intro C. apply Qle_bool_iff in C. congruence.
Qed.
End AP.
