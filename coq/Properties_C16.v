(* C16 -- text forms are exact and round-trip.
   Round trips are checked on the implementation (print with the library, parse back with the library, compare
   encodings); the decimal forms are compared with the exact expansions defined in TextModel.v, about which: *)
From Coq Require Import ZArith List Lia.
From UV Require Import Num TextModel TextProps.
Import ListNotations.
Local Open Scope Z_scope.

(* parsing the decimal digits of a number in base 10 gives the number back (digit level) *)
Lemma parse_digits_app : forall l1 l2 acc v, parse_digits 10 l1 acc = Some v -> parse_digits 10 (l1 ++ l2) acc = parse_digits 10 l2 v.
Proof.
  induction l1 as [|c l1 IH]; intros l2 acc v H; cbn [parse_digits app] in *.
  - injection H as ->. reflexivity.
  - destruct (digit_val c) as [d|]; [|discriminate]. destruct (Z.ltb d 10); [|discriminate]. apply IH. exact H.
Qed.
Theorem C16_parse_digits_append : forall l1 l2 acc v,
  parse_digits 10 l1 acc = Some v -> parse_digits 10 (l1 ++ l2) acc = parse_digits 10 l2 v.
Proof. exact parse_digits_app. Qed.
Print Assumptions C16_parse_digits_append.

(* the model's decimal printer and parser are inverse, for every integer (unbounded): printing then parsing returns the number;
   with judge_text this is what makes "decimal output = dec_of_Z value" and "parse of a digit string = its integer" one specification *)
Theorem C16_decimal_roundtrip : forall z : Z, parse_int (dec_of_Z z) = Some z.
Proof. exact parse_int_dec_of_Z. Qed.
Print Assumptions C16_decimal_roundtrip.
Theorem C16_decimal_digits_parse : forall z : Z, 0 <= z -> parse_digits 10 (dec_of_nat z) 0 = Some z.
Proof. exact parse_dec_of_nat. Qed.
Print Assumptions C16_decimal_digits_parse.

(* kernel-evaluated instances of print/parse on the model (the implementation's round trips are what the correspondence decides) *)
Example C16_witness :
  parse_int (dec_of_Z 123456789012345678901234567890) = Some 123456789012345678901234567890 /\
  parse_int (dec_of_Z (-4096)) = Some (-4096) /\ parse_int [48; 120; 102; 70] = Some 255 /\
  fx_dec_string 8 4 0x18 = [49; 46; 53; 48; 48; 48] /\ fx_dec_string 8 4 0xf8 = [45; 48; 46; 53; 48; 48; 48] /\
  fx_dec_string 8 0 0x80 = [45; 49; 50; 56] /\ dec_of_Z 0 = [48].
Proof. vm_compute. repeat split; reflexivity. Qed.
