(* C16 -- text forms are exact and round-trip.
   Round trips are checked on the implementation (print with the library, parse back with the library, compare
   encodings); the decimal forms are compared with the exact expansions defined in TextModel.v, about which: *)
From Coq Require Import ZArith List Lia.
From UV Require Import Num TextModel.
Import ListNotations.
Local Open Scope Z_scope.

(* parsing the decimal digits of a number in base 10 gives the number back (digit level) *)
Lemma parse_digits_app : forall l1 l2 acc v, parse_digits 10 l1 acc = Some v -> parse_digits 10 (l1 ++ l2) acc = parse_digits 10 l2 v.
Proof.
  induction l1 as [|c l1 IH]; intros l2 acc v H; cbn [parse_digits app] in *.
  - injection H as ->. reflexivity.
  - destruct (digit_val c) as [d|]; [|discriminate]. destruct (Z.ltb d 10); [|discriminate]. apply IH. exact H.
Qed.
Theorem C16_parse_digits_append : forall l1 l2 acc v,
  parse_digits 10 l1 acc = Some v -> parse_digits 10 (l1 ++ l2) acc = parse_digits 10 l2 v.
Proof. exact parse_digits_app. Qed.
Print Assumptions C16_parse_digits_append.

(* kernel-evaluated instances of print/parse on the model (the for-all round trip of the model's own printer is a
   stretch item; the implementation's round trips are what the correspondence decides) *)
Example C16_witness :
  parse_int (dec_of_Z 123456789012345678901234567890) = Some 123456789012345678901234567890 /\
  parse_int (dec_of_Z (-4096)) = Some (-4096) /\ parse_int [48; 120; 102; 70] = Some 255 /\
  fx_dec_string 8 4 0x18 = [49; 46; 53; 48; 48; 48] /\ fx_dec_string 8 4 0xf8 = [45; 48; 46; 53; 48; 48; 48] /\
  fx_dec_string 8 0 0x80 = [45; 49; 50; 56] /\ dec_of_Z 0 = [48].
Proof. vm_compute. repeat split; reflexivity. Qed.
