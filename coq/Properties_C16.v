(* C16 -- text forms are exact and round-trip.
   Round trips are checked on the implementation (print with the library, parse back with the library, compare
   encodings); the decimal forms are compared with the exact expansions defined in TextModel.v, about which: *)
From Coq Require Import ZArith List Lia.
From UV Require Import Num TextModel TextProps.
Import ListNotations.
Local Open Scope Z_scope.

(* parsing the decimal digits of a number in base 10 gives the number back (digit level) *)
Lemma parse_digits_app : forall l1 l2 acc v, parse_digits 10 l1 acc = Some v -> parse_digits 10 (l1 ++ l2) acc = parse_digits 10 l2 v.
Proof.
  induction l1 as [|c l1 IH]; intros l2 acc v H; cbn [parse_digits app] in *.
  - injection H as ->. reflexivity.
  - destruct (digit_val c) as [d|]; [|discriminate]. destruct (Z.ltb d 10); [|discriminate]. apply IH. exact H.
Qed.
Theorem C16_parse_digits_append : forall l1 l2 acc v,
  parse_digits 10 l1 acc = Some v -> parse_digits 10 (l1 ++ l2) acc = parse_digits 10 l2 v.
Proof. exact parse_digits_app. Qed.
Print Assumptions C16_parse_digits_append.

(* the model's decimal printer and parser are inverse, for every integer (unbounded): printing then parsing returns the number;
   with judge_text this is what makes "decimal output = dec_of_Z value" and "parse of a digit string = its integer" one specification *)
Theorem C16_decimal_roundtrip : forall z : Z, parse_int (dec_of_Z z) = Some z.
Proof. exact parse_int_dec_of_Z. Qed.
Print Assumptions C16_decimal_roundtrip.
Theorem C16_decimal_digits_parse : forall z : Z, 0 <= z -> parse_digits 10 (dec_of_nat z) 0 = Some z.
Proof. exact parse_dec_of_nat. Qed.
Print Assumptions C16_decimal_digits_parse.

(* the fixed-width hexadecimal and binary digit strings that the lossless text forms are made of (posit hex_format, the
   0b strings of cfloat and fixpnt, integer hex literals) parse back to the number they were printed from, at every width;
   the strings themselves are compared byte for byte with the library's output (ops hexstr / binstr) *)
Theorem C16_hex_digits_roundtrip : forall (k : nat) a acc, 0 <= a < 16 ^ Z.of_nat k ->
  parse_digits 16 (hex_fixed k a) acc = Some (acc * 16 ^ Z.of_nat k + a).
Proof. exact hex_fixed_parse. Qed.
Print Assumptions C16_hex_digits_roundtrip.
Theorem C16_bin_digits_roundtrip : forall (k : nat) a acc, 0 <= a < 2 ^ Z.of_nat k ->
  parse_digits 2 (bin_fixed k a) acc = Some (acc * 2 ^ Z.of_nat k + a).
Proof. exact bin_fixed_parse. Qed.
Print Assumptions C16_bin_digits_roundtrip.
Theorem C16_integer_hex_roundtrip : forall (k : nat) a, 0 <= a < 16 ^ Z.of_nat k -> parse_int (48 :: 120 :: hex_fixed k a) = Some a.
Proof. exact parse_int_hex. Qed.
Print Assumptions C16_integer_hex_roundtrip.
(* cfloat: assign (to_binary x) = x for every width and exponent size -- cf_assign is a transcription of cfloat::assign's two
   passes (character filter + counters, then bit fill with the exponent-field count check), cf_bin_string of to_binary *)
Theorem C16_cfloat_binary_roundtrip : forall n es a, 0 <= es -> es + 1 <= n -> 0 <= a < 2 ^ n ->
  cf_assign n es (cf_bin_string n es a) = a.
Proof. exact cf_assign_to_binary. Qed.
Print Assumptions C16_cfloat_binary_roundtrip.
Example C16_cfloat_assign_rejects :
  cf_assign 8 2 [48; 98; 49; 46; 48; 49; 46; 48; 48; 49; 48; 49] = 0xA5 /\           (* "0b1.01.00101" *)
  cf_assign 8 2 [48; 98; 49; 46; 48; 49; 48; 46; 48; 49; 48; 49] = 0 /\              (* three exponent characters: rejected *)
  cf_assign 8 2 [48; 98; 49; 46; 48; 49; 46; 48; 48; 39; 49; 48; 49] = 0xA5 /\       (* nibble marker skipped *)
  cf_assign 8 2 [48; 98; 49; 48; 49; 48; 48; 49; 48; 49] = 0.                        (* no field separators: rejected *)
Proof. vm_compute. repeat split; reflexivity. Qed.
(* fixpnt: assign (to_binary x) = x for every nbits, rbits (fx_assign transcribes the binary branch of fixpnt::assign) *)
Theorem C16_fixpnt_binary_roundtrip : forall n r a, 0 <= r <= n -> 1 <= n -> 0 <= a < 2 ^ n ->
  fx_assign n r (fx_bin_string n r a) = a.
Proof. exact fx_assign_to_binary. Qed.
Print Assumptions C16_fixpnt_binary_roundtrip.
Example C16_fixpnt_assign_rejects :
  fx_assign 8 4 [48; 98; 48; 48; 48; 49; 46; 49; 48; 48; 48] = 0x18 /\        (* "0b0001.1000" *)
  fx_assign 8 4 [48; 98; 48; 48; 48; 49; 49; 46; 48; 48; 48] = 0 /\           (* radix point at position 3: cleared *)
  fx_assign 8 4 [48; 98; 48; 48; 48; 49; 46; 49; 48; 39; 48; 48] = 0x18 /\    (* nibble marker skipped *)
  fx_assign 8 4 [48; 98] = 0.
Proof. vm_compute. repeat split; reflexivity. Qed.
(* integer: parse (to_hex x) = x -- to_hex prints "0x" and 1 + (nbits-1)/4 upper-case hexits of the two's complement pattern *)
Theorem C16_integer_to_hex_roundtrip : forall n a, 1 <= n -> 0 <= a < 2 ^ n -> parse_int (int_hex_string n a) = Some a.
Proof. exact parse_int_hex_string. Qed.
Print Assumptions C16_integer_to_hex_roundtrip.
(* posit: parse (hex_format p) = p for every width up to 64 bits -- posit_parse transcribes the branch of parse() taken when the text
   matches the posit pattern: field splitting, the decimal width prefix, std::hex extraction with its optional 0x, the shift for a
   wider prefix, setbits *)
Theorem C16_posit_hex_roundtrip : forall n es a, 1 <= n <= 64 -> 0 <= es <= 9 -> 0 <= a < 2 ^ n ->
  posit_parse n (posit_hex_string n es a) = Some a.
Proof. exact posit_parse_hex_format. Qed.
Print Assumptions C16_posit_hex_roundtrip.
Example C16_posit_parse_forms :
  posit_parse 8 [56; 46; 48; 120; 52; 48] = Some 0x40 /\                           (* "8.0x40": no inner 0x, no p *)
  posit_parse 8 (posit_hex_string 16 1 0x4000) = Some 0x40 /\                      (* wider prefix: the top bits are taken *)
  posit_parse 8 [56; 46; 48; 120; 122] = Some 0 /\                                 (* "8.0xz": no hexit, the extraction yields 0 *)
  posit_parse 8 [56; 48; 120; 52; 48] = None.                                      (* "80x40": not the posit form *)
Proof. vm_compute. repeat split; reflexivity. Qed.
Example C16_strings_witness :
  posit_hex_string 8 0 0x40 = [56; 46; 48; 120; 48; 120; 52; 48; 112] /\          (* "8.0x0x40p" *)
  posit_hex_string 3 1 5 = [51; 46; 49; 120; 48; 120; 53; 112] /\                  (* "3.1x0x5p" *)
  cf_bin_string 8 2 0xA5 = [48; 98; 49; 46; 48; 49; 46; 48; 48; 49; 48; 49] /\     (* "0b1.01.00101" *)
  fx_bin_string 8 4 0x18 = [48; 98; 48; 48; 48; 49; 46; 49; 48; 48; 48] /\         (* "0b0001.1000" *)
  fx_bin_string 4 4 0x9 = [48; 98; 48; 46; 49; 48; 48; 49].                        (* "0b0.1001" *)
Proof. vm_compute. repeat split; reflexivity. Qed.

(* kernel-evaluated instances of print/parse on the model (the implementation's round trips are what the correspondence decides) *)
Example C16_witness :
  parse_int (dec_of_Z 123456789012345678901234567890) = Some 123456789012345678901234567890 /\
  parse_int (dec_of_Z (-4096)) = Some (-4096) /\ parse_int [48; 120; 102; 70] = Some 255 /\
  fx_dec_string 8 4 0x18 = [49; 46; 53; 48; 48; 48] /\ fx_dec_string 8 4 0xf8 = [45; 48; 46; 53; 48; 48; 48] /\
  fx_dec_string 8 0 0x80 = [45; 49; 50; 56] /\ dec_of_Z 0 = [48].
Proof. vm_compute. repeat split; reflexivity. Qed.
