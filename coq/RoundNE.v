From Coq Require Import ZArith QArith Qabs Lia Lqa Bool.
From UV Require Import RoundSpec.
Local Open Scope Z_scope.

Section RNE.
Variable val : Z -> Q.
Variable N : Z.
Hypothesis HN : 0 <= N.
Hypothesis val_mono : forall i j, 0 <= i -> i < j -> j <= N -> (val i < val j)%Q.
Variable par : Z -> bool.                       (* parity of the encoding behind an index *)
Hypothesis par_succ : forall i, par (i+1) = negb (par i).
Variable thr : Z -> Q.                          (* decision threshold between u and u+1 *)
Hypothesis thr_between : forall u, 0 <= u -> u < N -> (val u < thr u /\ thr u < val (u+1))%Q.

Definition fl (x : Q) : Z := floor_idx val N (Z.to_nat (Z.log2_up (N+1))) 0 x.

Definition rne (x : Q) : Z :=
  let u := fl x in
  if Z.eqb u N then N else
  match Qcompare x (thr u) with
  | Lt => u
  | Gt => u + 1
  | Eq => if par u then u else u + 1
  end.

Lemma fl_spec x : (val 0 <= x)%Q ->
  0 <= fl x <= N /\ (val (fl x) <= x)%Q /\ (forall k, fl x < k -> k <= N -> (x < val k)%Q).
Proof. intro H. apply (floor_idx_correct val N val_mono x HN H). Qed.

(* threshold form: this is literally the Posit-Standard / IEEE decision rule *)
Theorem rne_thr_spec x : (val 0 <= x)%Q ->
  let r := rne x in
  0 <= r <= N /\
  ((val N <= x)%Q -> r = N) /\
  ((x < val N)%Q -> exists u, 0 <= u /\ u < N /\ (val u <= x)%Q /\ (x < val (u+1))%Q /\
      ((x < thr u)%Q -> r = u) /\ ((thr u < x)%Q -> r = u + 1) /\
      ((x == thr u)%Q -> (r = u \/ r = u + 1) /\ par r = true)).
Proof.
  intros H0 r. destruct (fl_spec x H0) as ((F1 & F2) & F3 & F4).
  unfold r, rne. destruct (Z.eqb_spec (fl x) N) as [E|NE].
  - split; [lia|]. split; [auto|]. intro Hlt. exfalso. rewrite E in F3. lra.
  - assert (Hu : fl x < N) by lia.
    assert (Hnext : (x < val (fl x + 1))%Q) by (apply F4; lia).
    destruct (thr_between (fl x) F1 Hu) as (T1 & T2).
    split.
    { destruct (Qcompare x (thr (fl x))); [destruct (par (fl x))| |]; lia. }
    split.
    { intro Hge. exfalso.
      assert ((val (fl x + 1) <= val N)%Q).
      { destruct (Z.eq_dec (fl x + 1) N) as [->|]; [apply Qle_refl|apply Qlt_le_weak, val_mono; lia]. }
      lra. }
    intro Hlt. exists (fl x). repeat split; auto.
    + intro Hc. rewrite (proj1 (Qlt_alt _ _) Hc). reflexivity.
    + intro Hc. rewrite (proj1 (Qgt_alt _ _) Hc). reflexivity.
    + rewrite (proj1 (Qeq_alt _ _) H). destruct (par (fl x)); auto.
    + rewrite (proj1 (Qeq_alt _ _) H). destruct (par (fl x)) eqn:P; auto.
      rewrite par_succ, P. reflexivity.
Qed.

(* exactness: representable values round to themselves *)
Theorem rne_exact i : 0 <= i <= N -> rne (val i) = i.
Proof.
  intros Hi.
  assert (H0 : (val 0 <= val i)%Q).
  { destruct (Z.eq_dec 0 i) as [<-|]; [apply Qle_refl|apply Qlt_le_weak, val_mono; lia]. }
  destruct (fl_spec (val i) H0) as ((F1 & F2) & F3 & F4).
  assert (Efl : fl (val i) = i).
  { destruct (Z.lt_trichotomy (fl (val i)) i) as [Hlt|[He|Hgt]]; auto.
    - specialize (F4 i Hlt ltac:(lia)). lra.
    - assert ((val i < val (fl (val i)))%Q) by (apply val_mono; lia). lra. }
  unfold rne. rewrite Efl. destruct (Z.eqb_spec i N); [lia|].
  destruct (thr_between i ltac:(lia) ltac:(lia)) as (T1 & T2).
  rewrite (proj1 (Qlt_alt _ _) T1). reflexivity.
Qed.

(* ---- guessed floor: an arbitrary (unverified) guess g is accepted only after the
   two comparisons that characterise the floor; otherwise the search runs.  So the
   result never depends on how the guess was computed. *)
Definition fl_g (g : Z) (x : Q) : Z :=
  if (0 <=? g) && (g <=? N) && Qle_bool (val g) x && ((g =? N) || negb (Qle_bool (val (g+1)) x))
  then g else fl x.

Lemma fl_g_eq g x : (val 0 <= x)%Q -> fl_g g x = fl x.
Proof.
  intro H0. unfold fl_g.
  destruct ((0 <=? g) && (g <=? N) && Qle_bool (val g) x && ((g =? N) || negb (Qle_bool (val (g+1)) x))) eqn:C;
    [|reflexivity].
  apply andb_prop in C. destruct C as [C C4]. apply andb_prop in C. destruct C as [C C3].
  apply andb_prop in C. destruct C as [C1 C2].
  apply Z.leb_le in C1. apply Z.leb_le in C2. apply Qle_bool_iff in C3.
  destruct (fl_spec x H0) as ((F1 & F2) & F3 & F4).
  assert (Hle : g <= fl x).
  { destruct (Z.le_gt_cases g (fl x)) as [|Hgt]; [assumption|]. exfalso.
    assert ((x < val g)%Q) by (apply F4; lia). lra. }
  destruct (Z.eq_dec g (fl x)) as [|Hne]; [assumption|]. exfalso.
  assert (Hlt : g < fl x) by lia.
  apply orb_prop in C4. destruct C4 as [C4|C4].
  - apply Z.eqb_eq in C4. lia.
  - apply negb_true_iff in C4.
    assert (Hx : (x < val (g+1))%Q).
    { apply Qnot_le_lt. intro Hc. apply Qle_bool_iff in Hc. congruence. }
    assert ((val (g+1) <= val (fl x))%Q).
    { destruct (Z.eq_dec (g+1) (fl x)) as [->|]; [apply Qle_refl|apply Qlt_le_weak, val_mono; lia]. }
    lra.
Qed.

Definition rne_g (g : Z) (x : Q) : Z :=
  let u := fl_g g x in
  if Z.eqb u N then N else
  match Qcompare x (thr u) with
  | Lt => u
  | Gt => u + 1
  | Eq => if par u then u else u + 1
  end.
Lemma rne_g_eq g x : (val 0 <= x)%Q -> rne_g g x = rne x.
Proof. intro H. unfold rne_g, rne. rewrite (fl_g_eq g x H). reflexivity. Qed.

Lemma rne_compat x y : (x == y)%Q -> rne x = rne y.
Proof.
  intro E. unfold rne, fl. rewrite (floor_idx_compat val N _ _ x y E).
  destruct (Z.eqb _ N); [reflexivity|].
  rewrite (Qcompare_comp _ _ E _ _ (Qeq_refl _)). reflexivity.
Qed.
End RNE.

(* nearest characterisation for arithmetic midpoints *)
Section Nearest.
Variable val : Z -> Q.
Variable N : Z.
Hypothesis HN : 0 <= N.
Hypothesis val_mono : forall i j, 0 <= i -> i < j -> j <= N -> (val i < val j)%Q.
Variable par : Z -> bool.
Hypothesis par_succ : forall i, par (i+1) = negb (par i).
Definition mid (u : Z) : Q := ((val u + val (u+1)) * (1#2))%Q.

Lemma mid_between u : 0 <= u -> u < N -> (val u < mid u /\ mid u < val (u+1))%Q.
Proof.
  intros H1 H2. assert ((val u < val (u+1))%Q) by (apply val_mono; lia).
  unfold mid. split; lra.
Qed.

Definition rnem := rne val N par mid.

Lemma val_le i j : 0 <= i -> i <= j -> j <= N -> (val i <= val j)%Q.
Proof.
  intros. destruct (Z.eq_dec i j) as [->|]; [apply Qle_refl|apply Qlt_le_weak, val_mono; lia].
Qed.

Theorem rne_nearest x : (val 0 <= x)%Q -> (x <= val N)%Q ->
  let r := rnem x in
  0 <= r <= N /\
  (forall j, 0 <= j <= N -> (Qabs (x - val r) <= Qabs (x - val j))%Q) /\
  (forall j, 0 <= j <= N -> j <> r -> (Qabs (x - val r) == Qabs (x - val j))%Q -> par r = true).
Proof.
  intros H0 HN' r.
  destruct (rne_thr_spec val N HN val_mono par par_succ mid mid_between x H0) as (R1 & R2 & R3).
  fold rnem in R1, R2, R3. fold r in R1, R2, R3.
  split; [exact R1|].
  destruct (Qlt_le_dec x (val N)) as [Hlt|Hge].
  - destruct (R3 Hlt) as (u & U1 & U2 & U3 & U4 & U5 & U6 & U7). clear R2 R3.
    assert (Hm := mid_between u U1 U2). unfold mid in *.
    (* distances to every j *)
    assert (Dlow : forall j, 0 <= j <= u -> (val j <= val u)%Q) by (intros; apply val_le; lia).
    assert (Dhigh : forall j, u + 1 <= j <= N -> (val (u+1) <= val j)%Q) by (intros; apply val_le; lia).
    destruct (Qcompare_spec x ((val u + val (u + 1)) * (1#2))) as [He|Hl|Hg].
    + (* tie *)
      destruct (U7 He) as ([Hr|Hr] & Hp); split.
      * intros j Hj. rewrite Hr.
        destruct (Z_le_gt_dec j u).
        -- specialize (Dlow j ltac:(lia)). rewrite !Qabs_pos by lra. lra.
        -- specialize (Dhigh j ltac:(lia)). rewrite (Qabs_pos (x - val u)) by lra. rewrite (Qabs_neg (x - val j)) by lra. lra.
      * intros; exact Hp.
      * intros j Hj. rewrite Hr.
        destruct (Z_le_gt_dec j u).
        -- specialize (Dlow j ltac:(lia)). rewrite (Qabs_neg (x - val (u+1))) by lra. rewrite (Qabs_pos (x - val j)) by lra. lra.
        -- specialize (Dhigh j ltac:(lia)). rewrite !Qabs_neg by lra. lra.
      * intros; exact Hp.
    + rewrite (U5 Hl). split.
      * intros j Hj. destruct (Z_le_gt_dec j u).
        -- specialize (Dlow j ltac:(lia)). rewrite !Qabs_pos by lra. lra.
        -- specialize (Dhigh j ltac:(lia)). rewrite (Qabs_pos (x - val u)) by lra. rewrite (Qabs_neg (x - val j)) by lra. lra.
      * intros j Hj Hne Heq. exfalso.
        destruct (Z_le_gt_dec j u).
        -- assert (j < u) by lia. assert ((val j < val u)%Q) by (apply val_mono; lia).
           rewrite !Qabs_pos in Heq by lra. lra.
        -- specialize (Dhigh j ltac:(lia)). rewrite (Qabs_pos (x - val u)) in Heq by lra. rewrite (Qabs_neg (x - val j)) in Heq by lra. lra.
    + rewrite (U6 Hg). split.
      * intros j Hj. destruct (Z_le_gt_dec j u).
        -- specialize (Dlow j ltac:(lia)). rewrite (Qabs_neg (x - val (u+1))) by lra. rewrite (Qabs_pos (x - val j)) by lra. lra.
        -- specialize (Dhigh j ltac:(lia)). rewrite !Qabs_neg by lra. lra.
      * intros j Hj Hne Heq. exfalso.
        destruct (Z_le_gt_dec j u).
        -- specialize (Dlow j ltac:(lia)). rewrite (Qabs_neg (x - val (u+1))) in Heq by lra. rewrite (Qabs_pos (x - val j)) in Heq by lra. lra.
        -- assert (u + 1 < j) by lia. assert ((val (u+1) < val j)%Q) by (apply val_mono; lia).
           rewrite !Qabs_neg in Heq by lra. lra.
  - rewrite (R2 Hge). assert (Hx : (x == val N)%Q) by lra. split.
    + intros j Hj. assert ((val j <= val N)%Q) by (apply val_le; lia).
      rewrite (Qabs_pos (x - val j)) by lra. rewrite Qabs_pos by lra. lra.
    + intros j Hj Hne Heq. exfalso.
      assert ((val j < val N)%Q) by (apply val_mono; lia).
      rewrite (Qabs_pos (x - val j)) in Heq by lra. rewrite Qabs_pos in Heq by lra. lra.
Qed.
End Nearest.
Print Assumptions rne_thr_spec.
Print Assumptions rne_exact.
Print Assumptions rne_nearest.
