(* Theorems about the cfloat model: for every geometry (es >= 1, n > es + 1) and every flag
   combination, the magnitude rounding is round-to-nearest, ties to the even encoding, over the
   finite values extended by the first value beyond the range (which is the IEEE overflow rule);
   flush and special-value algebra. *)
From Coq Require Import ZArith QArith Qabs Lia Lqa Bool List.
From UV Require Import RoundSpec RoundNE PositMono2 PositVal CfloatSpec Num Verdict PositFast CfloatModel.
Local Open Scope Z_scope.

Section CP.
Variable c : cfcfg.
Hypothesis Hes : 1 <= c_es c.
Hypothesis Hn : c_es c + 1 < c_n c.
Local Notation n := (c_n c).
Local Notation es := (c_es c).

Lemma cfb_pos : 1 <= cfb c. Proof. unfold cfb. lia. Qed.
Lemma c_lo_nonneg : 0 <= c_lo c.
Proof. unfold c_lo. destruct (c_sub c); [lia|]. assert (0 < 2^(cfb c)) by (apply Z.pow_pos_nonneg; assert (H := cfb_pos); lia). lia. Qed.

Lemma pow_split_n : 2^(c_n c - 1) = 2^(c_es c) * 2^(cfb c).
Proof. unfold cfb. rewrite <- Z.pow_add_r by lia. f_equal. lia. Qed.

Lemma cN_nonneg : 0 <= c_top c + 1 - c_lo c.
Proof.
  assert (F := cfb_pos). assert (P := pow_split_n).
  assert (2 <= 2^(cfb c)) by (change 2 with (2^1) at 1; apply Z.pow_le_mono_r; lia).
  assert (2 <= 2^(c_es c)) by (change 2 with (2^1) at 1; apply Z.pow_le_mono_r; lia).
  unfold c_top, c_lo, c_eall. destruct (c_sup c), (c_sat c), (c_sub c); nia.
Qed.

Lemma c_top_pos : 1 <= c_top c.
Proof.
  assert (F := cfb_pos). assert (P := pow_split_n).
  assert (2 <= 2^(cfb c)) by (change 2 with (2^1) at 1; apply Z.pow_le_mono_r; lia).
  assert (2 <= 2^(c_es c)) by (change 2 with (2^1) at 1; apply Z.pow_le_mono_r; lia).
  unfold c_top, c_eall. destruct (c_sup c), (c_sat c); nia.
Qed.

Lemma cval_mono i j : 0 <= i -> i < j -> (cval_i c i < cval_i c j)%Q.
Proof.
  intros Hi Hij. unfold cval_i. apply cf_val_mono; try assumption; assert (L := c_lo_nonneg); lia.
Qed.
Lemma cpar_succ i : cpar_i c (i + 1) = negb (cpar_i c i).
Proof.
  unfold cpar_i. replace (c_lo c + (i + 1)) with (Z.succ (c_lo c + i)) by lia.
  rewrite Z.even_succ. rewrite <- Z.negb_even. reflexivity.
Qed.

(* inside the range: nearest, ties to the even encoding *)
Theorem cf_round_mag_nearest q :
  ~ (q == 0)%Q -> (cf_val n es (c_lo c) <= q)%Q -> (q < cf_val n es (c_top c + 1))%Q ->
  let m := cf_round_mag c q in
  c_lo c <= m <= c_top c + 1 /\
  (forall j, c_lo c <= j <= c_top c + 1 -> (Qabs (q - cf_val n es m) <= Qabs (q - cf_val n es j))%Q) /\
  (forall j, c_lo c <= j <= c_top c + 1 -> j <> m ->
     (Qabs (q - cf_val n es m) == Qabs (q - cf_val n es j))%Q -> Z.even m = true).
Proof.
  intros Hq0 Hlo Hhi. cbv zeta. unfold cf_round_mag.
  destruct (Qeq_bool q 0) eqn:E0; [apply Qeq_bool_iff in E0; contradiction|].
  assert (Hflush : (negb (c_sub c) && Qlt_bool q (cf_val (c_n c) (c_es c) (c_lo c))) = false).
  { apply andb_false_iff. right. unfold Qlt_bool. apply negb_false_iff. apply Qle_bool_iff. exact Hlo. }
  rewrite Hflush.
  set (N := c_top c + 1 - c_lo c).
  assert (HN := cN_nonneg). fold N in HN.
  assert (EN : cval_i c N = cf_val n es (c_top c + 1)) by (unfold cval_i, N; f_equal; lia).
  destruct (Qle_bool (cval_i c N) q) eqn:Eo.
  { apply Qle_bool_iff in Eo. rewrite EN in Eo. exfalso. lra. }
  assert (H0 : (cval_i c 0 <= q)%Q) by (unfold cval_i; rewrite Z.add_0_r; exact Hlo).
  rewrite (rne_g_eq (cval_i c) N HN (fun i j Hi Hij _ => cval_mono i j Hi Hij) (cpar_i c) (mid (cval_i c)) _ q H0).
  destruct (rne_nearest (cval_i c) N HN (fun i j Hi Hij _ => cval_mono i j Hi Hij) (cpar_i c) cpar_succ q H0
              ltac:(rewrite EN; lra)) as (R1 & R2 & R3).
  unfold rnem in *. set (r := rne (cval_i c) N (cpar_i c) (mid (cval_i c)) q) in *.
  split; [unfold N in R1; lia|]. split.
  - intros j Hj. specialize (R2 (j - c_lo c) ltac:(unfold N; lia)). unfold cval_i in R2.
    replace (c_lo c + (j - c_lo c)) with j in R2 by lia. exact R2.
  - intros j Hj Hne Heq. specialize (R3 (j - c_lo c) ltac:(unfold N; lia) ltac:(lia)). unfold cval_i, cpar_i in R3.
    replace (c_lo c + (j - c_lo c)) with j in R3 by lia. apply R3. exact Heq.
Qed.

(* representable values are fixed points *)
Theorem cf_round_mag_exact m : c_lo c <= m <= c_top c -> 0 < m -> cf_round_mag c (cf_val n es m) = m.
Proof.
  intros Hm Hpos. unfold cf_round_mag.
  assert (L := c_lo_nonneg).
  assert (Vpos : (0 < cf_val n es m)%Q).
  { assert (V0 : (cf_val n es 0 == 0)%Q).
    { unfold cf_val, V. rewrite Z.div_0_l, Zmod_0_l by (assert (0 < 2^(CfloatSpec.fb n es)) by (apply Z.pow_pos_nonneg; unfold CfloatSpec.fb; lia); lia).
      cbn. ring. }
    assert (H := cf_val_mono n es Hes Hn 0 m (Z.le_refl 0) Hpos). lra. }
  destruct (Qeq_bool (cf_val n es m) 0) eqn:E0; [apply Qeq_bool_iff in E0; lra|].
  assert (Hflush : (negb (c_sub c) && Qlt_bool (cf_val n es m) (cf_val (c_n c) (c_es c) (c_lo c))) = false).
  { apply andb_false_iff. right. unfold Qlt_bool. apply negb_false_iff. apply Qle_bool_iff.
    destruct (Z.eq_dec (c_lo c) m) as [->|]; [apply Qle_refl|]. apply Qlt_le_weak. apply cf_val_mono; try assumption; lia. }
  rewrite Hflush.
  set (N := c_top c + 1 - c_lo c). assert (HN := cN_nonneg). fold N in HN.
  destruct (Qle_bool (cval_i c N) (cf_val n es m)) eqn:Eo.
  { apply Qle_bool_iff in Eo. unfold cval_i, N in Eo. replace (c_lo c + (c_top c + 1 - c_lo c)) with (c_top c + 1) in Eo by lia.
    assert (Hm0 : 0 <= m) by lia. assert (Hm1 : m < c_top c + 1) by lia.
    assert (H := cf_val_mono n es Hes Hn m (c_top c + 1) Hm0 Hm1). lra. }
  replace (cf_val n es m) with (cval_i c (m - c_lo c)) by (unfold cval_i; f_equal; lia).
  assert (H0 : (cval_i c 0 <= cval_i c (m - c_lo c))%Q).
  { destruct (Z.eq_dec 0 (m - c_lo c)) as [<-|]; [apply Qle_refl|]. apply Qlt_le_weak, cval_mono; lia. }
  rewrite (rne_g_eq (cval_i c) N HN (fun i j Hi Hij _ => cval_mono i j Hi Hij) (cpar_i c) (mid (cval_i c)) _ _ H0).
  rewrite (rne_exact (cval_i c) N HN (fun i j Hi Hij _ => cval_mono i j Hi Hij) (cpar_i c) (mid (cval_i c))
            (mid_between (cval_i c) N (fun i j Hi Hij _ => cval_mono i j Hi Hij))) by (unfold N; lia).
  lia.
Qed.

(* flush: without subnormals everything below the smallest normal becomes zero *)
Theorem cf_flush q : c_sub c = false -> (q < cf_val n es (c_lo c))%Q -> cf_round_mag c q = 0.
Proof.
  intros Hs Hq. unfold cf_round_mag. destruct (Qeq_bool q 0); [reflexivity|].
  rewrite Hs. cbn [negb andb]. unfold Qlt_bool.
  destruct (Qle_bool (cf_val (c_n c) (c_es c) (c_lo c)) q) eqn:E; [apply Qle_bool_iff in E; fold n es in E; lra|reflexivity].
Qed.

(* overflow: at or beyond the first value past the range the result is inf, or maxpos when saturating;
   with the nearest theorem this is exactly "q >= maxpos + ulp/2 overflows" *)
Theorem cf_overflow s q : (cf_val n es (c_top c + 1) <= q)%Q ->
  cf_encode c (Fin s q) = if c_sat c then signbit c s + c_top c else signbit c s + c_infm c.
Proof.
  intro Hq. unfold cf_encode, cf_round_mag.
  assert (L := c_lo_nonneg).
  assert (Vpos : (0 < cf_val n es (c_top c + 1))%Q).
  { assert (V0 : (cf_val n es 0 == 0)%Q).
    { unfold cf_val, V. rewrite Z.div_0_l, Zmod_0_l by (assert (0 < 2^(CfloatSpec.fb n es)) by (apply Z.pow_pos_nonneg; unfold CfloatSpec.fb; lia); lia).
      cbn. ring. }
    assert (HN := cN_nonneg).
    assert (Ht : 0 < c_top c + 1) by (assert (T := c_top_pos); lia).
    assert (H := cf_val_mono n es Hes Hn 0 (c_top c + 1) (Z.le_refl 0) Ht). lra. }
  destruct (Qeq_bool q 0) eqn:E0; [apply Qeq_bool_iff in E0; lra|].
  assert (Hflush : (negb (c_sub c) && Qlt_bool q (cf_val (c_n c) (c_es c) (c_lo c))) = false).
  { apply andb_false_iff. right. unfold Qlt_bool. apply negb_false_iff. apply Qle_bool_iff.
    assert (HN := cN_nonneg).
    assert ((cf_val n es (c_lo c) <= cf_val n es (c_top c + 1))%Q).
    { destruct (Z.eq_dec (c_lo c) (c_top c + 1)) as [->|]; [apply Qle_refl|]. apply Qlt_le_weak, cf_val_mono; try assumption; lia. }
    fold n es. lra. }
  rewrite Hflush.
  assert (Eo : Qle_bool (cval_i c (c_top c + 1 - c_lo c)) q = true).
  { apply Qle_bool_iff. unfold cval_i. replace (c_lo c + (c_top c + 1 - c_lo c)) with (c_top c + 1) by lia. exact Hq. }
  rewrite Eo. destruct (Z.ltb_spec (c_top c) (c_top c + 1)); [reflexivity|lia].
Qed.

Theorem cf_encode_specials s :
  cf_encode c NaN = c_nanm c /\ cf_encode c (Inf s) = signbit c s + c_infm c /\ cf_encode c (Fin s 0) = signbit c s + 0.
Proof.
  repeat split; try reflexivity. unfold cf_encode, cf_round_mag.
  change (Qeq_bool 0 0) with true. cbv iota.
  assert (T := c_top_pos). destruct (Z.ltb_spec (c_top c) 0); [lia|reflexivity].
Qed.
End CP.

(* ---- IEEE special-value algebra of the operation models ------------------- *)
Theorem num_specials :
  (forall s, num_add (Inf s) (Inf (negb s)) = NaN) /\
  (forall s t q, Qeq_bool q 0 = true -> num_mul (Inf s) (Fin t q) = NaN /\ num_mul (Fin t q) (Inf s) = NaN) /\
  (forall s t p q, Qeq_bool p 0 = true -> Qeq_bool q 0 = true -> num_div (Fin s p) (Fin t q) = NaN) /\
  (forall s t, num_div (Inf s) (Inf t) = NaN) /\
  (forall s t p q, Qeq_bool p 0 = false -> Qeq_bool q 0 = true -> num_div (Fin s p) (Fin t q) = Inf (xorb s t)) /\
  (forall x, num_add NaN x = NaN /\ num_add x NaN = NaN /\ num_mul NaN x = NaN /\ num_mul x NaN = NaN /\
             num_div NaN x = NaN /\ num_div x NaN = NaN).
Proof.
  repeat split; intros; cbn;
    repeat match goal with H : Qeq_bool _ _ = _ |- _ => rewrite H; clear H end;
    try reflexivity;
    try (match goal with s : bool |- _ => destruct s; reflexivity end);
    try (match goal with x : num |- _ => destruct x; reflexivity end).
Qed.
(* a zero product or quotient carries the exclusive-or of the operand signs *)
Theorem num_zero_sign : forall s t p q,
  (Qeq_bool (Qred (p * q)) 0 = true -> num_mul (Fin s p) (Fin t q) = Fin (xorb s t) (Qred (p * q))) /\
  (Qeq_bool q 0 = false -> num_div (Fin s p) (Fin t q) = Fin (xorb s t) (Qred (p / q))) /\
  (num_div (Fin s p) (Inf t) = Fin (xorb s t) 0).
Proof. intros. repeat split; intros; cbn; try rewrite H; reflexivity. Qed.
