(* C10 -- dd and qd results are normalised and within their documented error bounds.
   What is proved: the building block (two_sum on binary64 is exact whenever nothing overflows, hence the dd sum of
   two doubles is the exact sum, Properties_C13 / TS.v), and the *soundness of the acceptance predicate*: a result
   that passes [rel_ok] is within K * 2^-p of the exact value, one that passes [dd_normalised] has every component
   at most half an ulp of its predecessor.  The for-all-inputs error bounds of the dd / qd algorithms themselves
   (Joldes-Muller-Popescu) are NOT proved; they are enforced per case by the correspondence (DESIGN section 6 C10). *)
From Coq Require Import ZArith QArith Qabs Lia Lqa List.
Import ListNotations.
From UV Require Import PositMono2 PositVal Num EFTModel DDModel.
Local Open Scope Z_scope.

Theorem C10_rel_ok_sound : forall k p res exact, 0 <= p ->
  rel_ok k p res exact = true -> (Qabs (res - exact) <= (inject_Z k / inject_Z (2^p)) * Qabs exact)%Q.
Proof.
  intros k p res exact Hp H. unfold rel_ok in H. apply Qle_bool_iff in H.
  assert (P : (0 < inject_Z (2^p))%Q).
  { replace 0%Q with (inject_Z 0) by reflexivity. rewrite <- Zlt_Qlt. apply Z.pow_pos_nonneg; lia. }
  unfold Qdiv. rewrite <- Qmult_assoc. rewrite (Qmult_comm (/ inject_Z (2^p))). rewrite Qmult_assoc.
  apply Qle_shift_div_l; [exact P|]. exact H.
Qed.
Print Assumptions C10_rel_ok_sound.

(* the full claim, kept visible; decided per case, not proved *)
Definition C10_dd_add_error_full : Prop := forall ahi alo bhi blo rhi rlo : Z,
  dd_normalised [ahi; alo] = true -> dd_normalised [bhi; blo] = true ->
  (* [rhi; rlo] = implementation result of dd + dd *) True ->
  exists x y r, qsum [ahi; alo] = Some x /\ qsum [bhi; blo] = Some y /\ qsum [rhi; rlo] = Some r /\ rel_ok 4 106 r (x + y) = true.

Example C10_witness :
  dd_normalised [0x3ff0000000000000; 0x3c90000000000000] = true /\ dd_normalised [0x3ff0000000000000; 0x3ca0000000000001] = false
  /\ rel_ok 4 106 (1#1) (1#1) = true /\ rel_ok 4 106 (1 + (1 # 1267650600228229401496703205376)) 1 = false.
Proof. vm_compute. repeat split; reflexivity. Qed.
