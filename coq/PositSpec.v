From Coq Require Import ZArith QArith Qabs Lia Lqa Bool.
From UV Require Import RoundSpec RoundNE PositMono PositMono2 PositVal PositPad.
Local Open Scope Z_scope.

(* ---- executable specification of posit<n,es> -------------------------- *)
Definition M (n : Z) : Z := 2^(n-1) - 1.                 (* largest magnitude pattern = maxpos *)
Definition nar (n : Z) : Z := 2^(n-1).

Definition pval (n es bits : Z) : option Q :=             (* None = NaR *)
  if Z.eqb bits 0 then Some 0%Q else
  if Z.eqb bits (nar n) then None else
  if Z.ltb bits (nar n) then Some (pos_val n es bits)
  else Some (- pos_val n es (2^n - bits))%Q.

(* index i in [0, M-1]  <->  magnitude pattern i+1 *)
Definition ival (n es i : Z) : Q := pos_val n es (i + 1).
Definition ipar (i : Z) : bool := Z.even (i + 1).
Definition ithr (n es i : Z) : Q := pos_val (n + 1) es (2 * (i + 1) + 1).

Definition pround_pos (n es : Z) (x : Q) : Z :=
  if Qle_bool x (ival n es 0) then 1
  else rne (ival n es) (M n - 1) ipar (ithr n es) x + 1.

Definition pround (n es : Z) (x : Q) : Z :=
  match Qcompare x 0 with
  | Eq => 0
  | Gt => pround_pos n es x
  | Lt => 2^n - pround_pos n es (- x)
  end.

Definition lift2 (n es : Z) (f : Q -> Q -> Q) (a b : Z) : Z :=
  match pval n es a, pval n es b with
  | Some x, Some y => pround n es (Qred (f x y))
  | _, _ => nar n
  end.
Definition padd n es := lift2 n es Qplus.
Definition psub n es := lift2 n es Qminus.
Definition pmul n es := lift2 n es Qmult.
Definition pdiv n es a b :=
  match pval n es b with
  | Some y => if Qeq_bool y 0 then nar n else lift2 n es Qdiv a b
  | None => nar n
  end.

(* ---- facts needed to instantiate the generic rounding theory ----------- *)
Section Inst.
Variables n es : Z.
Hypothesis Hn : 2 <= n.
Hypothesis Hes : 0 <= es.

Lemma M_pos : 0 <= M n - 1.
Proof.
  unfold M. assert (2^1 <= 2^(n-1)) by (apply Z.pow_le_mono_r; lia).
  change (2^1) with 2 in H. lia.
Qed.

Lemma ival_mono : forall i j, 0 <= i -> i < j -> j <= M n - 1 -> (ival n es i < ival n es j)%Q.
Proof. intros i j Hi Hij Hj. unfold ival. apply pos_val_mono; unfold M in *; lia. Qed.

Lemma ipar_succ : forall i, ipar (i + 1) = negb (ipar i).
Proof. intro i. unfold ipar. replace (i + 1 + 1) with (Z.succ (i + 1)) by lia.
  rewrite Z.even_succ. rewrite <- Z.negb_even. reflexivity. Qed.

Lemma ithr_between : forall u, 0 <= u -> u < M n - 1 ->
  (ival n es u < ithr n es u /\ ithr n es u < ival n es (u + 1))%Q.
Proof. intros u H0 H1. unfold ival, ithr. apply posit_thr_between; unfold M in *; lia. Qed.

(* ---- the Posit-Standard rounding rule, for every width and es ---------- *)
Theorem pround_pos_std (x : Q) :
  let p := pround_pos n es x in
  let minpos := pos_val n es 1 in let maxpos := pos_val n es (M n) in
  1 <= p <= M n /\
  ((x <= minpos)%Q -> p = 1) /\
  ((maxpos <= x)%Q -> p = M n) /\
  ((minpos < x)%Q -> (x < maxpos)%Q ->
     exists u, 1 <= u /\ u < M n /\ (pos_val n es u <= x)%Q /\ (x < pos_val n es (u + 1))%Q /\
       let v := pos_val (n + 1) es (2 * u + 1) in
       ((x < v)%Q -> p = u) /\ ((v < x)%Q -> p = u + 1) /\
       ((x == v)%Q -> (p = u \/ p = u + 1) /\ Z.even p = true)).
Proof.
  cbv zeta. unfold pround_pos.
  assert (HM := M_pos).
  assert (Emin : ival n es 0 = pos_val n es 1) by reflexivity.
  assert (Emax : ival n es (M n - 1) = pos_val n es (M n)) by (unfold ival; f_equal; lia).
  assert (Hminmax : (pos_val n es 1 <= pos_val n es (M n))%Q).
  { destruct (Z.eq_dec 1 (M n)) as [<-|]; [apply Qle_refl|].
    apply Qlt_le_weak, pos_val_mono; unfold M in *; lia. }
  destruct (Qle_bool x (ival n es 0)) eqn:Hle.
  - apply Qle_bool_iff in Hle. rewrite Emin in Hle.
    split; [lia|]. split; [auto|]. split.
    + intro Hge. assert (Heq : (pos_val n es 1 == pos_val n es (M n))%Q) by lra.
      destruct (Z.eq_dec 1 (M n)) as [E|NE]; [exact E|]. exfalso.
      assert ((pos_val n es 1 < pos_val n es (M n))%Q) by (apply pos_val_mono; unfold M in *; lia). lra.
    + intros H1 H2. exfalso. lra.
  - assert (Hgt : (ival n es 0 < x)%Q).
    { apply Qnot_le_lt. intro Hc. apply Qle_bool_iff in Hc. congruence. }
    destruct (rne_thr_spec (ival n es) (M n - 1) HM ival_mono ipar ipar_succ (ithr n es) ithr_between x
                ltac:(apply Qlt_le_weak; exact Hgt)) as (R1 & R2 & R3).
    set (r := rne (ival n es) (M n - 1) ipar (ithr n es) x) in *.
    split; [lia|]. split.
    + intro Hc. exfalso. rewrite Emin in Hgt. lra.
    + split.
      * intro Hge. rewrite <- Emax in Hge. rewrite (R2 Hge). lia.
      * intros H1 H2. rewrite <- Emax in H2.
        destruct (R3 H2) as (u & U1 & U2 & U3 & U4 & U5 & U6 & U7).
        exists (u + 1). unfold ival, ithr in *.
        replace (u + 1 + 1) with (u + 1 + 1) in * by lia.
        repeat split; try lia; auto.
        -- intro Hc. rewrite (U5 Hc). reflexivity.
        -- intro Hc. rewrite (U6 Hc). lia.
        -- destruct (U7 H) as ([E|E] & _); rewrite E; [left|right]; lia.
        -- destruct (U7 H) as (_ & P). exact P.
Qed.

Theorem pround_pos_exact p : 1 <= p <= M n -> pround_pos n es (pos_val n es p) = p.
Proof.
  intro Hp. unfold pround_pos.
  assert (HM := M_pos).
  destruct (Qle_bool (pos_val n es p) (ival n es 0)) eqn:Hle.
  - apply Qle_bool_iff in Hle. unfold ival in Hle. simpl in Hle.
    destruct (Z.eq_dec p 1) as [->|NE]; [reflexivity|]. exfalso.
    assert ((pos_val n es 1 < pos_val n es p)%Q) by (apply pos_val_mono; unfold M in *; lia).
    change (0 + 1) with 1 in Hle. lra.
  - replace (pos_val n es p) with (ival n es (p - 1)) by (unfold ival; f_equal; lia).
    rewrite (rne_exact (ival n es) (M n - 1) HM ival_mono ipar (ithr n es) ithr_between) by lia. lia.
Qed.
End Inst.
Print Assumptions pround_pos_std.
Print Assumptions pround_pos_exact.
