From Coq Require Import ZArith Lia Bool.
Local Open Scope Z_scope.

(* L = number of magnitude bits (n-1). p in [1, 2^L - 1]. *)
Definition Ylow (L p : Z) : Z := (Z.log2 p - L) * 2^L + p * 2^(L - Z.log2 p).
Definition Yhigh (L p : Z) : Z :=
  let q1 := 2^L - p in   (* q + 1, in [1, 2^(L-1)] *)
  if Z.eqb q1 1 then (L-1) * 2^L
  else let r := Z.log2 (q1 - 1) in (L - r) * 2^L - q1 * 2^(L - r).
Definition Y (L p : Z) : Z := if Z.ltb p (2^(L-1)) then Ylow L p else Yhigh L p.

Lemma pow2_pos e : 0 <= e -> 0 < 2^e. Proof. intros; apply Z.pow_pos_nonneg; lia. Qed.

Lemma pow2_split a b : 0 <= a -> 0 <= b -> 2^(a+b) = 2^a * 2^b.
Proof. intros; apply Z.pow_add_r; lia. Qed.

(* bounds of Ylow in terms of rem = log2 p *)
Lemma Ylow_bounds L p : 0 < p -> p < 2^(L-1) -> 1 <= L ->
  let r := Z.log2 p in
  0 <= r /\ r <= L - 2 /\ (r - L + 1) * 2^L <= Ylow L p /\ Ylow L p < (r - L + 2) * 2^L.
Proof.
  intros Hp Hlt HL r.
  assert (Hr := Z.log2_spec p Hp). fold r in Hr.
  assert (Hr0 : 0 <= r) by apply Z.log2_nonneg.
  assert (HrL : r <= L - 2).
  { assert (r < L - 1); [|lia]. apply Z.log2_lt_pow2; lia. }
  unfold Ylow. fold r.
  assert (E : 2^L = 2^r * 2^(L-r)). { rewrite <- pow2_split by lia. f_equal; lia. }
  assert (P := pow2_pos (L-r) ltac:(lia)).
  assert (E2 : 2^(Z.succ r) = 2 * 2^r) by (apply Z.pow_succ_r; lia).
  repeat split; try lia.
  - rewrite E at 2. nia.
  - replace ((r - L + 2) * 2^L) with ((r-L)*2^L + 2 * 2^L) by ring. rewrite E at 3. nia.
Qed.

Lemma Ylow_mono L p p' : 1 <= L -> 0 < p -> p < p' -> p' < 2^(L-1) -> Ylow L p < Ylow L p'.
Proof.
  intros HL Hp Hpp Hp'.
  destruct (Ylow_bounds L p ltac:(lia) ltac:(lia) HL) as (A1 & A2 & A3 & A4).
  destruct (Ylow_bounds L p' ltac:(lia) ltac:(lia) HL) as (B1 & B2 & B3 & B4).
  assert (Hle : Z.log2 p <= Z.log2 p') by (apply Z.log2_le_mono; lia).
  destruct (Z.eq_dec (Z.log2 p) (Z.log2 p')) as [E|NE].
  - unfold Ylow. rewrite <- E.
    assert (P := pow2_pos (L - Z.log2 p) ltac:(lia)). nia.
  - assert (Z.log2 p + 1 <= Z.log2 p') by lia.
    assert (P := pow2_pos L ltac:(lia)).
    eapply Z.lt_le_trans; [exact A4|]. eapply Z.le_trans; [|exact B3]. nia.
Qed.
