(* Order theorems for posits: the comparison by value (NaR least) is the two's-complement integer
   order of the encodings; ++ / -- move to the adjacent value.  Every n >= 2, es >= 0. *)
From Coq Require Import ZArith QArith Qabs Lia Lqa Bool List.
From UV Require Import RoundSpec RoundNE PositMono PositMono2 PositVal PositPad PositSpec Num PositModel PositProps IntProps.
Local Open Scope Z_scope.

Section O.
Variables n es : Z.
Hypothesis Hn : 2 <= n.
Hypothesis Hes : 0 <= es.

(* value of a signed pattern z in [-M, M] *)
Definition sval (z : Z) : Q :=
  if Z.ltb 0 z then pos_val n es z else if Z.ltb z 0 then (- pos_val n es (- z))%Q else 0%Q.

Lemma pos_val_pos p : 1 <= p <= M n -> (0 < pos_val n es p)%Q.
Proof.
  intro Hp. unfold pos_val. apply Qmult_lt_0_compat; [apply pow2Q_pos|].
  assert (P := pow_n1_ge2 n Hn).
  apply Qlt_shift_div_l.
  - replace 0%Q with (inject_Z 0) by reflexivity. rewrite <- Zlt_Qlt. lia.
  - rewrite Qmult_0_l. replace 0%Q with (inject_Z 0) by reflexivity. rewrite <- Zlt_Qlt.
    assert (0 <= (Y (n-1) p * 2^es) mod 2^(n-1)) by (apply Z.mod_pos_bound; lia). lia.
Qed.

Lemma sval_mono z z' : - M n <= z -> z < z' -> z' <= M n -> (sval z < sval z')%Q.
Proof.
  intros H1 H2 H3. unfold sval. unfold M in *.
  destruct (Z.ltb_spec 0 z); destruct (Z.ltb_spec 0 z'); try lia.
  - apply pos_val_mono; lia.
  - destruct (Z.ltb_spec z 0).
    + assert (A := pos_val_pos (- z) ltac:(unfold M; lia)). assert (B := pos_val_pos z' ltac:(unfold M; lia)). lra.
    + assert (B := pos_val_pos z' ltac:(unfold M; lia)). lra.
  - destruct (Z.ltb_spec z 0); destruct (Z.ltb_spec z' 0); try lia.
    + assert (A := pos_val_mono n es (- z') (- z) Hn Hes ltac:(lia) ltac:(lia) ltac:(lia)). lra.
    + assert (A := pos_val_pos (- z) ltac:(unfold M; lia)). lra.
Qed.

(* decoding through the signed pattern *)
Lemma pval_sval a : 0 <= a < 2^n -> a <> nar n -> pval n es a = Some (sval (sgn n a)) /\ - M n <= sgn n a <= M n.
Proof.
  intros Ha Hnar. assert (P := pow_n_split n Hn). assert (P2 := pow_n1_ge2 n Hn). unfold nar in Hnar.
  unfold sgn. rewrite wrap_id by assumption. unfold sval, M.
  destruct (Z.ltb_spec a (2^(n-1))) as [Hlt|Hge].
  - destruct (Z.eq_dec a 0) as [->|Na]. { split; [reflexivity|lia]. }
    rewrite (pval_pos n es Hn a) by (unfold M; lia).
    destruct (Z.ltb_spec 0 a); [|lia]. split; [reflexivity|lia].
  - replace a with (2^n - (2^n - a)) at 1 by lia.
    rewrite (pval_negpat n es Hn (2^n - a)) by (unfold M; lia).
    destruct (Z.ltb_spec 0 (a - 2^n)); [lia|]. destruct (Z.ltb_spec (a - 2^n) 0); [|lia].
    split; [|lia]. do 3 f_equal. lia.
Qed.

(* the comparison by value is the two's complement order of the encodings, NaR least *)
Theorem plt_is_bits_order a b : 0 <= a < 2^n -> 0 <= b < 2^n -> plt n es a b = Z.ltb (sgn n a) (sgn n b).
Proof.
  intros Ha Hb. assert (P := pow_n_split n Hn). assert (P2 := pow_n1_ge2 n Hn).
  assert (Snar : sgn n (nar n) = - 2^(n-1)).
  { unfold sgn, nar. rewrite wrap_id by lia. destruct (Z.ltb_spec (2^(n-1)) (2^(n-1))); lia. }
  unfold plt.
  destruct (Z.eq_dec a (nar n)) as [->|Na]; destruct (Z.eq_dec b (nar n)) as [->|Nb].
  - rewrite (pval_nar n es Hn). symmetry. apply Z.ltb_irrefl.
  - rewrite (pval_nar n es Hn). destruct (pval_sval b Hb Nb) as (E & R). rewrite E, Snar. unfold M in R.
    symmetry. apply Z.ltb_lt. lia.
  - rewrite (pval_nar n es Hn). destruct (pval_sval a Ha Na) as (E & R). rewrite E, Snar. unfold M in R.
    symmetry. apply Z.ltb_ge. lia.
  - destruct (pval_sval a Ha Na) as (Ea & Ra). destruct (pval_sval b Hb Nb) as (Eb & Rb). rewrite Ea, Eb.
    unfold Qlt_bool.
    destruct (Z.ltb_spec (sgn n a) (sgn n b)) as [Hlt|Hge].
    + assert (S := sval_mono _ _ (proj1 Ra) Hlt (proj2 Rb)).
      apply negb_true_iff. destruct (Qle_bool (sval (sgn n b)) (sval (sgn n a))) eqn:C; [|reflexivity].
      apply Qle_bool_iff in C. lra.
    + apply negb_false_iff. apply Qle_bool_iff.
      destruct (Z.eq_dec (sgn n b) (sgn n a)) as [->|Hne]; [apply Qle_refl|].
      apply Qlt_le_weak. apply sval_mono; lia.
Qed.

(* equality is equality of encodings *)
Theorem peq_is_bits_eq a b : 0 <= a < 2^n -> 0 <= b < 2^n -> peq n es a b = Z.eqb a b.
Proof.
  intros Ha Hb. unfold peq.
  destruct (Z.eq_dec a (nar n)) as [->|Na]; destruct (Z.eq_dec b (nar n)) as [->|Nb].
  - rewrite (pval_nar n es Hn). symmetry. apply Z.eqb_refl.
  - rewrite (pval_nar n es Hn). destruct (pval_sval b Hb Nb) as (E & _). rewrite E. symmetry. apply Z.eqb_neq. congruence.
  - rewrite (pval_nar n es Hn). destruct (pval_sval a Ha Na) as (E & _). rewrite E. symmetry. apply Z.eqb_neq. congruence.
  - destruct (pval_sval a Ha Na) as (Ea & Ra). destruct (pval_sval b Hb Nb) as (Eb & Rb). rewrite Ea, Eb.
    destruct (Z.eqb_spec a b) as [->|Hne].
    + apply Qeq_bool_iff. reflexivity.
    + destruct (Qeq_bool (sval (sgn n a)) (sval (sgn n b))) eqn:C; [|reflexivity]. exfalso.
      apply Qeq_bool_iff in C.
      assert (Hs : sgn n a <> sgn n b).
      { intro E. apply Hne. rewrite <- (wrap_id n a Ha), <- (wrap_id n b Hb). rewrite <- (wrap_sgn n ltac:(lia) a), <- (wrap_sgn n ltac:(lia) b).
        rewrite E. reflexivity. }
      destruct (Z.lt_total (sgn n a) (sgn n b)) as [L|[L|L]]; [|contradiction|].
      * assert (S := sval_mono _ _ (proj1 Ra) L (proj2 Rb)). lra.
      * assert (S := sval_mono _ _ (proj1 Rb) L (proj2 Ra)). lra.
Qed.

(* ++ moves to the adjacent value: strictly greater, and nothing lies strictly between *)
Theorem pinc_adjacent a : 0 <= a < 2^n -> pinc_defined n a = true ->
  plt n es a (pinc n a) = true /\ forall b, 0 <= b < 2^n -> plt n es a b = true -> plt n es b (pinc n a) = true -> False.
Proof.
  intros Ha Hd. assert (P := pow_n_split n Hn). assert (P2 := pow_n1_ge2 n Hn).
  unfold pinc_defined, nar in Hd. apply andb_prop in Hd. destruct Hd as [D1 D2].
  apply negb_true_iff in D1. apply negb_true_iff in D2. apply Z.eqb_neq in D1. apply Z.eqb_neq in D2.
  assert (Hs : sgn n (pinc n a) = sgn n a + 1).
  { unfold pinc. rewrite (sgn_wrap n ltac:(lia)). destruct (sgn_congr n ltac:(lia) (a + 1)) as [k Hk].
    assert (R := sgn_range n ltac:(lia) (a+1)). 
    unfold sgn at 2. rewrite wrap_id by lia.
    destruct (Z.ltb_spec a (2^(n-1))).
    - rewrite sgn_id by lia. lia.
    - assert (E : sgn n (a + 1) = sgn n (a + 1 - 2^n)).
      { unfold sgn, wrap. replace (a + 1 - 2^n) with (a + 1 + (-1) * 2^n) by ring. rewrite Z.mod_add by lia. reflexivity. }
      rewrite E. rewrite sgn_id by lia. lia. }
  assert (Hi : 0 <= pinc n a < 2^n) by (unfold pinc; apply wrap_range; lia).
  split.
  - rewrite plt_is_bits_order by assumption. apply Z.ltb_lt. lia.
  - intros b Hb L1 L2. rewrite plt_is_bits_order in L1, L2 by assumption.
    apply Z.ltb_lt in L1. apply Z.ltb_lt in L2. lia.
Qed.
Theorem pdec_adjacent a : 0 <= a < 2^n -> pdec_defined n a = true ->
  plt n es (pdec n a) a = true /\ forall b, 0 <= b < 2^n -> plt n es (pdec n a) b = true -> plt n es b a = true -> False.
Proof.
  intros Ha Hd. assert (P := pow_n_split n Hn). assert (P2 := pow_n1_ge2 n Hn).
  unfold pdec_defined, nar in Hd. apply andb_prop in Hd. destruct Hd as [D1 D2].
  apply negb_true_iff in D1. apply negb_true_iff in D2. apply Z.eqb_neq in D1. apply Z.eqb_neq in D2.
  assert (Hs : sgn n (pdec n a) = sgn n a - 1).
  { unfold pdec. rewrite (sgn_wrap n ltac:(lia)).
    unfold sgn at 2. rewrite wrap_id by lia.
    destruct (Z.ltb_spec a (2^(n-1))).
    - rewrite sgn_id by lia. lia.
    - assert (E : sgn n (a - 1) = sgn n (a - 1 - 2^n)).
      { unfold sgn, wrap. replace (a - 1 - 2^n) with (a - 1 + (-1) * 2^n) by ring. rewrite Z.mod_add by lia. reflexivity. }
      rewrite E. rewrite sgn_id by lia. lia. }
  assert (Hi : 0 <= pdec n a < 2^n) by (unfold pdec; apply wrap_range; lia).
  split.
  - rewrite plt_is_bits_order by assumption. apply Z.ltb_lt. lia.
  - intros b Hb L1 L2. rewrite plt_is_bits_order in L1, L2 by assumption.
    apply Z.ltb_lt in L1. apply Z.ltb_lt in L2. lia.
Qed.
End O.
