(* C09 -- lns multiplies/divides exactly in the log domain with saturate/wrap semantics.
   Statements only.  Model: LnsModel.v.  add/sub are decided per case by the acceptance predicate
   l_add_accept (certified enclosures); the for-all-inputs claim for add/sub is NOT a theorem. *)
From Coq Require Import ZArith QArith.
From UV Require Import Num LnsModel LnsProps.
Local Open Scope Z_scope.

Theorem C09_encoding_roundtrip : forall n, 2 <= n -> forall s E, l_special n < E <= l_emax n ->
  l_decode n (l_encode n (LVal s E)) = LVal s E.
Proof. exact l_decode_encode. Qed.
Print Assumptions C09_encoding_roundtrip.
Theorem C09_mul_saturating : forall n, 2 <= n -> forall a b sa Ea sb Eb,
  l_decode n a = LVal sa Ea -> l_decode n b = LVal sb Eb ->
  let E := Ea + Eb in
  l_decode n (l_mul n true a b) =
    if Z.leb (l_emax n) E then LVal (xorb sa sb) (l_emax n)
    else if Z.leb E (l_special n) then LZero else LVal (xorb sa sb) E.
Proof. exact l_mul_saturating. Qed.
Print Assumptions C09_mul_saturating.
Theorem C09_div_saturating : forall n, 2 <= n -> forall a b sa Ea sb Eb,
  l_decode n a = LVal sa Ea -> l_decode n b = LVal sb Eb ->
  let E := Ea - Eb in
  l_decode n (l_div n true a b) =
    if Z.leb (l_emax n) E then LVal (xorb sa sb) (l_emax n)
    else if Z.leb E (l_special n) then LZero else LVal (xorb sa sb) E.
Proof. exact l_div_saturating. Qed.
Print Assumptions C09_div_saturating.
Theorem C09_mul_wrapping : forall n a b sa Ea sb Eb,
  l_decode n a = LVal sa Ea -> l_decode n b = LVal sb Eb ->
  l_mul n false a b = (if xorb sa sb then 2^(n-1) else 0) + (Ea + Eb) mod 2^(n-1).
Proof. exact l_mul_wrapping. Qed.
Print Assumptions C09_mul_wrapping.
Theorem C09_div_wrapping : forall n a b sa Ea sb Eb,
  l_decode n a = LVal sa Ea -> l_decode n b = LVal sb Eb ->
  l_div n false a b = (if xorb sa sb then 2^(n-1) else 0) + (Ea - Eb) mod 2^(n-1).
Proof. exact l_div_wrapping. Qed.
Print Assumptions C09_div_wrapping.
Theorem C09_mul_zero_nan : forall n sat a b,
  (l_decode n a = LNaN \/ l_decode n b = LNaN -> l_mul n sat a b = l_encode n LNaN) /\
  (l_decode n a <> LNaN -> l_decode n b <> LNaN -> l_decode n a = LZero \/ l_decode n b = LZero -> l_mul n sat a b = l_encode n LZero).
Proof. exact l_mul_specials. Qed.
Print Assumptions C09_mul_zero_nan.
Theorem C09_div_zero_nan : forall n sat a b,
  (l_decode n a = LNaN \/ l_decode n b = LNaN -> l_div n sat a b = l_encode n LNaN) /\
  (l_decode n a <> LNaN -> l_decode n b = LZero -> l_div n sat a b = l_encode n LNaN) /\
  (l_decode n a = LZero -> (exists s E, l_decode n b = LVal s E) -> l_div n sat a b = l_encode n LZero).
Proof. exact l_div_specials. Qed.
Print Assumptions C09_div_zero_nan.

(* the full statement for add/sub, kept visible; it is decided per case, not proved for all inputs *)
Definition C09_add_adjacent_full : Prop := forall n r sat a b c, (* c = implementation result *)
  l_add_accept n r sat a b c = true.

Example C09_witness :
  l_decode 8 0x08 = LVal false 8 /\ l_mul 8 true 0x08 0x08 = 0x10 /\ l_mul 8 true 0x3f 0x3f = 0x3f /\ l_mul 8 true 0x41 0x41 = 0x40
  /\ l_div 8 false 0x08 0x10 = 0x78 /\ l_div 8 true 0x08 0x40 = 0xc0 /\ l_add_accept 8 3 true 0x00 0x00 0x08 = true
  /\ l_add_accept 8 3 true 0x00 0x00 0x0a = false.
Proof. vm_compute. repeat split; reflexivity. Qed.

(* ---- add / sub (and C03's conversions) are decided per case with enclosures of 2^(m/2^r); the enclosures are sound, for every r and
   every exponent, stated without real numbers: with i = m / 2^r, j = m mod 2^r the pair is (lo, hi) * 2^(i - PREC) where
   lo^(2^r) <= 2^(j + PREC 2^r) <= hi^(2^r), i.e. lo / 2^PREC <= 2^(j/2^r) <= hi / 2^PREC ---- *)
From Coq Require Import List Lia. Import ListNotations.
From UV Require Import LnsEnc PositMono2.
Theorem C09_fraction_enclosure_sound : forall r j, 0 <= r -> 0 <= j < 2^r ->
  let e := frac_enc (lns_roots r) j (r - 1) (2^PREC, 2^PREC) in
  (0 <= fst e /\ (fst e) ^ (2^r) <= 2 ^ (j + PREC * 2^r)) /\ (0 <= snd e /\ 2 ^ (j + PREC * 2^r) <= (snd e) ^ (2^r)).
Proof. intros r j Hr Hj. exact (frac_enclosure r Hr j Hj). Qed.
Print Assumptions C09_fraction_enclosure_sound.
Theorem C09_enclosure_is_scaled_fraction : forall r m, let i := m / 2^r in - (PREC + 8) <= i <= 8 ->
  pow2_enc r m = (let e := frac_enc (lns_roots r) (m mod 2^r) (r - 1) (2^PREC, 2^PREC) in
                  ((inject_Z (fst e) * pow2Q (i - PREC))%Q, (inject_Z (snd e) * pow2Q (i - PREC))%Q)).
Proof.
  intros r m i Hi. unfold pow2_enc, pow2_enc_r. fold i.
  destruct (Z.ltb_spec i (- (PREC + 8))); [lia|]. destruct (Z.ltb_spec 8 i); [lia|]. reflexivity.
Qed.
Print Assumptions C09_enclosure_is_scaled_fraction.
