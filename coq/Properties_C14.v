(* C14 -- elastic types compute exactly at any size.  The model of einteger / edecimal is Z itself and of
   erational is Q reduced to lowest terms (ElasticModel.v); what is stated here are the arithmetic facts the
   property lists, for operands of any magnitude. *)
From Coq Require Import ZArith QArith Lia.
From UV Require Import ElasticModel.
Local Open Scope Z_scope.

(* division truncates toward zero and a == (a/b)*b + a%b, the remainder has the sign of the dividend *)
Theorem C14_division_identity : forall a b, b <> 0 ->
  a = Z.quot a b * b + Z.rem a b /\ Z.abs (Z.rem a b) < Z.abs b /\ (0 <= a -> 0 <= Z.rem a b) /\ (a <= 0 -> Z.rem a b <= 0).
Proof.
  intros a b Hb. split; [|split; [|split]].
  - rewrite Z.mul_comm. apply Z.quot_rem'.
  - apply Z.rem_bound_abs. assumption.
  - intro. apply Z.rem_nonneg; assumption.
  - intro. apply Z.rem_nonpos; assumption.
Qed.
Print Assumptions C14_division_identity.
(* the quotient has the sign of the exact quotient (or is zero) *)
Theorem C14_quotient_sign : forall a b, b <> 0 -> 0 <= Z.quot a b * (a * b) .
Proof.
  intros a b Hb.
  destruct (Z.le_gt_cases 0 a); destruct (Z.le_gt_cases 0 b).
  - assert (0 <= Z.quot a b) by (apply Z.quot_pos; lia). nia.
  - assert (Z.quot a b <= 0) by (rewrite <- (Z.opp_involutive b), Z.quot_opp_r by lia; assert (0 <= Z.quot a (- b)) by (apply Z.quot_pos; lia); lia). nia.
  - assert (Z.quot a b <= 0) by (rewrite <- (Z.opp_involutive a), Z.quot_opp_l by lia; assert (0 <= Z.quot (- a) b) by (apply Z.quot_pos; lia); lia). nia.
  - assert (0 <= Z.quot a b) by (rewrite <- (Z.opp_involutive a), <- (Z.opp_involutive b), Z.quot_opp_opp by lia; apply Z.quot_pos; lia). nia.
Qed.
Print Assumptions C14_quotient_sign.
(* erational: the reduced form is canonical -- equal rationals have the same representation -- and equals the value *)
Theorem C14_rational_canonical : forall p q : Q, (p == q)%Q -> Qred p = Qred q.
Proof. exact Qred_complete. Qed.
Print Assumptions C14_rational_canonical.
Theorem C14_rational_value : forall q : Q, (Qred q == q)%Q.
Proof. exact Qred_correct. Qed.
Print Assumptions C14_rational_value.

Example C14_witness : Qred (0 # 17) = 0 # 1 /\ Qred (-6 # 4) = -3 # 2 /\ Z.quot (-7) 2 = -3 /\ Z.rem (-7) 2 = -1 /\ Z.quot 7 (-2) = -3 /\ Z.rem 7 (-2) = 1.
Proof. vm_compute. repeat split; reflexivity. Qed.
