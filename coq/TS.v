From Coq Require Import ZArith Reals Lia Lra.
From Flocq Require Import Core BinarySingleNaN Pff2Flocq.
Local Open Scope Z_scope.

Definition prec := 53. Definition emax := 1024.
Lemma Hprec : FLX.Prec_gt_0 prec. Proof. reflexivity. Qed.
Lemma Hmax : Prec_lt_emax prec emax. Proof. reflexivity. Qed.
#[local] Existing Instance Hprec.
#[local] Existing Instance Hmax.
Definition b64 := binary_float prec emax.
Definition add (a b : b64) : b64 := Bplus mode_NE a b.
Definition sub (a b : b64) : b64 := Bminus mode_NE a b.

(* universal error_free_ops.hpp two_sum, finite branch *)
Definition two_sum (a b : b64) : b64 * b64 :=
  let s := add a b in
  let bb := sub s a in
  (s, add (sub a (sub s bb)) (sub b bb)).

Notation fexp := (FLT_exp (3 - emax - prec) prec).
Notation RN := (round radix2 fexp ZnearestE).
Notation R_ := (B2R (prec:=prec) (emax:=emax)).

Lemma add_finite_R x y : is_finite x = true -> is_finite y = true -> is_finite (add x y) = true ->
  R_ (add x y) = RN (R_ x + R_ y)%R.
Proof.
  intros Fx Fy Fs. generalize (Bplus_correct prec emax _ _ mode_NE x y Fx Fy).
  fold (add x y). cbn [round_mode].
  destruct (Rlt_bool _ _).
  - intros (H & _). exact H.
  - intros (H & _). exfalso. unfold add in *.
    destruct (Bplus mode_NE x y); simpl in Fs; try discriminate;
    unfold binary_overflow in H; simpl in H; discriminate.
Qed.

Lemma sub_finite_R x y : is_finite x = true -> is_finite y = true -> is_finite (sub x y) = true ->
  R_ (sub x y) = RN (R_ x - R_ y)%R.
Proof.
  intros Fx Fy Fs. generalize (Bminus_correct prec emax _ _ mode_NE x y Fx Fy).
  fold (sub x y). cbn [round_mode].
  destruct (Rlt_bool _ _).
  - intros (H & _). exact H.
  - intros (H & _). exfalso. unfold sub in *.
    destruct (Bminus mode_NE x y); simpl in Fs; try discriminate;
    unfold binary_overflow in H; simpl in H; discriminate.
Qed.

Lemma choice_sym : forall x : Z, negb (Z.even x) = negb (negb (Z.even (- (x + 1)))).
Proof.
  intro x. rewrite Bool.negb_involutive. rewrite Z.even_opp, Z.even_add. simpl.
  destruct (Z.even x); reflexivity.
Qed.

(* exactness of two_sum whenever no intermediate operation overflows *)
Theorem two_sum_exact_partial a b :
  is_finite a = true -> is_finite b = true ->
  let s := add a b in let bb := sub s a in
  let t1 := sub s bb in let da := sub a t1 in let db := sub b bb in let r := add da db in
  is_finite s = true -> is_finite bb = true -> is_finite t1 = true ->
  is_finite da = true -> is_finite db = true -> is_finite r = true ->
  (R_ (fst (two_sum a b)) + R_ (snd (two_sum a b)) = R_ a + R_ b)%R /\
  R_ (fst (two_sum a b)) = RN (R_ a + R_ b)%R.
Proof.
  intros Fa Fb s bb t1 da db r Fs Fbb Ft1 Fda Fdb Fr.
  unfold two_sum. fold s. fold bb. fold t1. fold da. fold db. fold r. cbn [fst snd].
  assert (Es : R_ s = RN (R_ a + R_ b)%R) by (apply add_finite_R; auto).
  assert (Ebb : R_ bb = RN (R_ s - R_ a)%R) by (apply sub_finite_R; auto).
  assert (Et1 : R_ t1 = RN (R_ s - R_ bb)%R) by (apply sub_finite_R; auto).
  assert (Eda : R_ da = RN (R_ a - R_ t1)%R) by (apply sub_finite_R; auto).
  assert (Edb : R_ db = RN (R_ b - R_ bb)%R) by (apply sub_finite_R; auto).
  assert (Er : R_ r = RN (R_ da + R_ db)%R) by (apply add_finite_R; auto).
  split; [|exact Es].
  assert (Ga : generic_format radix2 fexp (R_ a)) by apply generic_format_B2R.
  assert (Gb : generic_format radix2 fexp (R_ b)) by apply generic_format_B2R.
  generalize (TwoSum_correct (3 - emax - prec) prec (fun x => negb (Z.even x)) ltac:(unfold prec; lia) ltac:(unfold emax, prec; lia) choice_sym (R_ a) (R_ b) Ga Gb).
  cbv zeta. rewrite <- Es. rewrite <- Ebb. rewrite <- Et1. rewrite <- Eda. rewrite <- Edb. rewrite <- Er.
  auto.
Qed.
Print Assumptions two_sum_exact_partial.
