(* Executable model of quire<n, es, capacity> steps, judged one step at a time: every line
   carries the complete observable state (sign + all qbits) before and after the step, so
   a history is validated inductively.  State machine and its theorems: QuireSpec.v. *)
From Coq Require Import ZArith QArith Lia Bool List.
From UV Require Import PositMono2 PositSpec Num PositModel PositFast QuireSpec Ops Verdict.
Import ListNotations.
Local Open Scope Z_scope.

Definition q_hr (n es : Z) : Z := 2^es * (2 * n - 4).            (* half_range: position of the fixed point *)
(* magnitude bits: lower segment (hr) + upper segment (hr + 1) + capacity *)
Definition q_bits (n es cap : Z) : Z := 2 * q_hr n es + 1 + cap.

(* a rational as an integer number of quire units 2^-hr, if it is one *)
Definition q_units (n es : Z) (x : Q) : option Z :=
  let y := Qred (x * inject_Z (2^(q_hr n es)))%Q in
  if Pos.eqb (Qden y) 1 then Some (Qnum y) else None.

Definition q_state (sgnb mag : Z) : qstate := {| qneg := Z.eqb sgnb 1; qmag := mag |}.
Definition q_out (s : qstate) : list Z := [b2z (qneg s); qmag s].

Definition q_step_ok (n es cap : Z) (before : qstate) (v : Z) (res : list Z) : verdict :=
  let after := q_add before v in
  if Z.ltb (qmag after) (2^(q_bits n es cap))
  then mkV (list_eqb (q_out after) res) (q_out after) true
  else mkV true res false.                       (* capacity exceeded: outside the property's precondition *)

Fixpoint dot (n es : Z) (l : list Z) (acc : Q) : option Q :=
  match l with
  | a :: b :: rest =>
      match pval n es a, pval n es b with
      | Some x, Some y => dot n es rest (acc + x * y)%Q
      | _, _ => None
      end
  | _ => Some acc
  end.

Definition judge_quire (cfg : list Z) (op : Z) (args res : list Z) : verdict :=
  let n := nth0 cfg 0 in let es := nth0 cfg 1 in let cap := nth0 cfg 2 in
  let before := q_state (nth0 args 0) (nth0 args 1) in
  let bad := mkV false [] false in
  let skip := mkV true res false in
  if Z.eqb op OP_qstep_add || Z.eqb op OP_qstep_sub then
    match pval n es (nth0 args 2) with
    | Some x => match q_units n es x with
                | Some v => q_step_ok n es cap before (if Z.eqb op OP_qstep_sub then - v else v) res
                | None => bad end
    | None => skip
    end else
  if Z.eqb op OP_qstep_mul then
    match pval n es (nth0 args 2), pval n es (nth0 args 3) with
    | Some x, Some y => match q_units n es (x * y) with
                        | Some v => q_step_ok n es cap before v res
                        | None => bad end
    | _, _ => skip
    end else
  if Z.eqb op OP_qstep_quire then      (* q1 += q2: args s1 m1 s2 m2; precondition: |q2| within the range of a posit product *)
    (let v := qabs (q_state (nth0 args 2) (nth0 args 3)) in
     if Z.ltb (Z.abs v) (2^(2 * q_hr n es + 1)) then q_step_ok n es cap before v res else skip) else
  if Z.eqb op OP_qround then           (* convert(q.to_value(), p): one correct rounding *)
    (let x := (inject_Z (qabs before) / inject_Z (2^(q_hr n es)))%Q in
     let e := pround_f n es (Qred x) in mkV (list_eqb [e] res) [e] true) else
  if Z.eqb op OP_fdp then              (* args a1 b1 a2 b2 ...; result posit = round (sum ai*bi) *)
    match dot n es args 0 with
    | Some x => let e := pround_f n es (Qred x) in mkV (list_eqb [e] res) [e] true
    | None => skip
    end else
  bad.
