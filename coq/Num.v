(* Common vocabulary of the executable models: bit vectors as Z with an explicit
   width, the class of values a floating format can denote, IEEE-754 binary
   interchange formats (decode, correctly rounded encode). *)
From Coq Require Import ZArith QArith Qabs Lia Bool List.
From UV Require Import RoundSpec RoundNE PositMono2 PositVal CfloatSpec.
Import ListNotations.
Local Open Scope Z_scope.

Definition wrap (n x : Z) : Z := x mod 2^n.
(* two's complement reading of an n-bit pattern *)
Definition sgn (n x : Z) : Z := let y := wrap n x in if Z.ltb y (2^(n-1)) then y else y - 2^n.

Definition Qlt_bool (x y : Q) : bool := negb (Qle_bool y x).

(* value classes: magnitude q >= 0 with a sign (so signed zeros exist), infinities, NaN *)
Inductive num := NaN | Inf (s : bool) | Fin (s : bool) (q : Q).

Definition num_Q (x : num) : option Q :=
  match x with Fin s q => Some (if s then - q else q)%Q | _ => None end.
Definition num_of_Q (x : Q) : num :=
  match Qcompare x 0 with Lt => Fin true (- x) | _ => Fin false x end.

Lemma Qle_bool_compat_l x y z : (x == y)%Q -> Qle_bool x z = Qle_bool y z.
Proof. intro E. apply Qleb_comp; [exact E|reflexivity]. Qed.

Definition nth0 (l : list Z) (i : nat) : Z := nth i l 0.

(* floor(log2 (a/b)) for positive a b (used only to *guess* rounding candidates, see RoundNE.fl_g) *)
Definition qlog2 (a b : Z) : Z :=
  let s0 := Z.log2 a - Z.log2 b in
  let ge := if Z.leb 0 s0 then Z.leb (Z.shiftl b s0) a else Z.leb b (Z.shiftl a (- s0)) in
  if ge then s0 else s0 - 1.

(* ---- IEEE-754 binary interchange formats: eb exponent bits, fb fraction bits ---- *)
Section IEEE.
Variables eb fb : Z.
Definition inb := 1 + eb + fb.
Definition iemax := 2^eb - 1.                      (* all-ones exponent field *)
Definition imag (bits : Z) : Z := bits mod 2^(inb - 1).
Definition isign (bits : Z) : bool := Z.testbit bits (inb - 1).
Definition ieee_decode (bits : Z) : num :=
  let m := imag bits in let s := isign bits in
  let e := m / 2^fb in let f := m mod 2^fb in
  if Z.eqb e iemax then (if Z.eqb f 0 then Inf s else NaN)
  else Fin s (cf_val inb eb m).
Definition itop : Z := iemax * 2^fb - 1.             (* magnitude pattern of the largest finite value *)
(* round to nearest even; overflow (>= maxfinite + ulp/2) to infinity: with the
   rounding done over [0 .. itop+1] where itop+1 is the pattern of +inf, whose
   "value" 2^emax is exactly what IEEE prescribes for the overflow threshold *)
(* floor guess: exponent from the bit lengths, fraction by shifting (checked by RoundNE.fl_g) *)
Definition ieee_guess (q : Q) : Z :=
  let a := Qnum q in let b := Zpos (Qden q) in
  if Z.leb a 0 then 0 else
  let s := qlog2 a b in
  let bias := 2^(eb-1) - 1 in
  let ebv := s + bias in
  if Z.leb 1 ebv then
    let num := if Z.leb 0 s then Z.shiftl a fb else Z.shiftl a (fb - s) in
    let den := if Z.leb 0 s then Z.shiftl b s else b in
    ebv * 2^fb + (num / den - 2^fb)
  else
    let sh := bias - 1 + fb in
    (if Z.leb 0 sh then Z.shiftl a sh else Z.shiftr a (- sh)) / b.
Definition ieee_round_mag (q : Q) : Z :=
  if Qle_bool (cf_val inb eb (itop + 1)) q then itop + 1
  else rne_g (cf_val inb eb) (itop + 1) Z.even (mid (cf_val inb eb)) (ieee_guess q) q.
Definition ieee_encode (x : num) : Z :=
  match x with
  | NaN => iemax * 2^fb + 2^(fb-1)
  | Inf s => (if s then 2^(inb-1) else 0) + iemax * 2^fb
  | Fin s q => (if s then 2^(inb-1) else 0) + ieee_round_mag q
  end.
(* is the value exactly representable (finite, no rounding)? *)
Definition ieee_exact (x : num) : bool :=
  match x with
  | Fin s q => let m := ieee_round_mag q in Z.leb m itop && Qeq_bool (cf_val inb eb m) q
  | _ => true
  end.
End IEEE.

Definition f64_decode := ieee_decode 11 52.
Definition f32_decode := ieee_decode 8 23.
Definition f64_encode := ieee_encode 11 52.
Definition f32_encode := ieee_encode 8 23.

(* x87 80-bit extended: 1 sign, 15 exponent, explicit integer bit, 63 fraction bits *)
Definition f80_decode (bits : Z) : num :=
  let s := Z.testbit bits 79 in
  let e := (bits / 2^64) mod 2^15 in
  let m := bits mod 2^64 in
  if Z.eqb e (2^15 - 1) then (if Z.eqb (m mod 2^63) 0 then Inf s else NaN)
  else Fin s (inject_Z m * pow2Q ((if Z.eqb e 0 then 1 else e) - 16383 - 63))%Q.

(* native integers: width w, signed or not, given as a w-bit pattern *)
(* width code 65 = the 64-bit type `long` / `unsigned long` (as opposed to `long long`) *)
Definition int_decode (signed : bool) (w bits : Z) : Z :=
  let w := if Z.eqb w 65 then 64 else w in if signed then sgn w bits else wrap w bits.
