(* Error-free transformations (C13) judged against their specification: the first output is the correctly
   rounded result, the outputs' exact sum equals the exact sum / product of the inputs.  Doubles are decoded
   exactly (Num.f64_decode); the algorithmic model over Flocq's binary64 and its theorems are in TS.v /
   Properties_C13.v. *)
From Coq Require Import ZArith QArith Qabs Lia Bool List.
From UV Require Import PositMono2 CfloatSpec Num Ops Verdict CfloatModel.
Import ListNotations.
Local Open Scope Z_scope.

Definition fq (x : num) : option Q := num_Q x.
Definition dq (bits : Z) : option Q := fq (f64_decode bits).
Definition rn64 (x : Q) : Z := f64_encode (num_of_Q (Qred x)).
(* is q a double? *)
Definition is_f64 (x : Q) : bool := ieee_exact 11 52 (num_of_Q (Qred x)).
Definition same_val (bits : Z) (x : Q) : bool := match dq bits with Some y => Qeq_bool x y | None => false end.
(* 2^1023 = half of the overflow threshold: the property's magnitude bound on the inputs *)
Definition half_max : Q := inject_Z (2^1023).
Definition small_enough (x : Q) : bool := Qle_bool (Qabs x) half_max.

(* s = RN(exact), r = exact - s must be exactly that *)
Definition judge_sum_like (exact : Q) (res : list Z) : verdict :=
  let s := rn64 exact in
  match dq s with
  | Some sv => let rv := (exact - sv)%Q in
               mkV (Z.eqb (Z.of_nat (length res)) 2 && same_val (nth0 res 0) sv && same_val (nth0 res 1) rv) [s; rn64 rv] true
  | None => mkV true res false
  end.

Definition judge_eft (cfg : list Z) (op : Z) (args res : list Z) : verdict :=
  let skip := mkV true res false in
  match dq (nth0 args 0), dq (nth0 args 1) with
  | Some a, Some b =>
      if negb (small_enough a && small_enough b) then skip else
      if Z.eqb op OP_two_sum then judge_sum_like (a + b) res else
      if Z.eqb op OP_two_diff then judge_sum_like (a - b) res else
      if Z.eqb op OP_quick_two_sum then (if Qle_bool (Qabs b) (Qabs a) then judge_sum_like (a + b) res else skip) else
      if Z.eqb op OP_two_prod then
        (let p := (a * b)%Q in
         if Qeq_bool p 0 || (Qle_bool (inject_Z 1 / inject_Z (2^900)) (Qabs p) && Qle_bool (Qabs p) (inject_Z (2^1000)))
         then judge_sum_like p res else skip) else
      if Z.eqb op OP_two_sqr then
        (let p := (a * a)%Q in
         if Qeq_bool p 0 || (Qle_bool (inject_Z 1 / inject_Z (2^900)) (Qabs p) && Qle_bool (Qabs p) (inject_Z (2^1000)))
         then judge_sum_like p res else skip) else
      if Z.eqb op OP_split then     (* hi + lo = a exactly, hi has at most 26 significant bits *)
        match dq (nth0 res 0), dq (nth0 res 1) with
        | Some hi, Some lo =>
            let fits26 := Qeq_bool hi 0 || (let m := Z.abs (Qnum (Qred hi)) in Z.leb (Z.log2 m - Z.log2 (Z.land m (- m))) 25) in
            mkV (Qeq_bool (hi + lo) a && fits26) [] true
        | _, _ => mkV false [] true
        end else
      if Z.eqb op OP_three_sum then     (* args a b c: outputs sum exactly to a+b+c, first output = RN(a+b+c) *)
        match dq (nth0 args 2), dq (nth0 res 0), dq (nth0 res 1), dq (nth0 res 2) with
        | Some c, Some x, Some y, Some z =>
            if negb (small_enough c) then skip else
            mkV (Qeq_bool (x + y + z) (a + b + c) && same_val (rn64 (a + b + c)) x) [] true
        | Some c, _, _, _ => if small_enough c then mkV false [] true else skip
        | None, _, _, _ => skip
        end else
      mkV false [] false
  | _, _ => skip
  end.

(* generic twoSum on a cfloat type with subnormals: s + r = a + b exactly, s = round(a + b) *)
Definition judge_gen_two_sum (cfg : list Z) (args res : list Z) : verdict :=
  let c := cfg_of cfg in
  match cf_decode c (nth0 args 0), cf_decode c (nth0 args 1) with
  | Fin sa pa, Fin sb pb =>
      let a := sQ sa pa in let b := sQ sb pb in
      let maxf := cf_val (c_n c) (c_es c) (c_top c) in
      if Qle_bool (Qabs a) (maxf * (1#2)) && Qle_bool (Qabs b) (maxf * (1#2)) then
        match cf_decode c (nth0 res 0), cf_decode c (nth0 res 1) with
        | Fin ss ps, Fin sr pr =>
            let e := cf_encode c (num_of_Q (Qred (a + b))) in
            mkV (Qeq_bool (sQ ss ps + sQ sr pr) (a + b) && cf_accept c true e (nth0 res 0)) [e] true
        | _, _ => mkV false [] true
        end
      else mkV true res false
  | _, _ => mkV true res false
  end.
