From Coq Require Import ZArith QArith Qabs Lia Lqa Bool.
From UV Require Import PositMono PositMono2.
Local Open Scope Z_scope.

Lemma inject_pow2_pos e : 0 <= e -> (0 < inject_Z (2^e))%Q.
Proof. intro H. assert (0 < 2^e) by (apply Z.pow_pos_nonneg; lia).
  unfold Qlt; simpl. lia. Qed.

Lemma pow2Q_pos e : (0 < pow2Q e)%Q.
Proof.
  unfold pow2Q. destruct (Z.leb_spec 0 e).
  - apply inject_pow2_pos; lia.
  - apply Qinv_lt_0_compat. apply inject_pow2_pos; lia.
Qed.

Lemma pow2Q_succ e : (pow2Q (e+1) == 2 * pow2Q e)%Q.
Proof.
  unfold pow2Q.
  destruct (Z.leb_spec 0 (e+1)); destruct (Z.leb_spec 0 e); try lia.
  - rewrite Z.pow_add_r by lia. rewrite inject_Z_mult. change (inject_Z (2^1)) with 2%Q. ring.
  - assert (e = -1) by lia. subst e. simpl. reflexivity.
  - replace (- e) with (- (e+1) + 1) by lia.
    rewrite Z.pow_add_r by lia. rewrite inject_Z_mult. change (inject_Z (2^1)) with 2%Q.
    assert (P := inject_pow2_pos (-(e+1)) ltac:(lia)).
    field. lra.
Qed.

Lemma pow2Q_mono_le a b : a <= b -> (pow2Q a <= pow2Q b)%Q.
Proof.
  intro H. replace b with (a + (b - a)) by lia.
  assert (Hd : 0 <= b - a) by lia. revert Hd. generalize (b - a). intros d Hd.
  pattern d. apply natlike_ind; auto.
  - rewrite Z.add_0_r. apply Qle_refl.
  - intros x Hx IH. replace (a + Z.succ x) with ((a + x) + 1) by lia.
    rewrite pow2Q_succ. assert (P := pow2Q_pos (a + x)). lra.
Qed.

(* value as a function of the integer position X and the width L *)
Definition valX (L X : Z) : Q :=
  (pow2Q (X / 2^L) * (inject_Z (2^L + X mod 2^L) / inject_Z (2^L)))%Q.

Lemma valX_mono L X X' : 0 <= L -> X < X' -> (valX L X < valX L X')%Q.
Proof.
  intros HL Hlt. unfold valX.
  assert (PL : 0 < 2^L) by (apply Z.pow_pos_nonneg; lia).
  assert (QL := inject_pow2_pos L HL).
  set (s := X / 2^L). set (f := X mod 2^L). set (s' := X' / 2^L). set (f' := X' mod 2^L).
  assert (Hf : 0 <= f < 2^L) by (apply Z.mod_pos_bound; lia).
  assert (Hf' : 0 <= f' < 2^L) by (apply Z.mod_pos_bound; lia).
  assert (EX : X = 2^L * s + f) by (apply Z.div_mod; lia).
  assert (EX' : X' = 2^L * s' + f') by (apply Z.div_mod; lia).
  assert (Hs : s <= s') by (apply Z.div_le_mono; lia).
  assert (Ps := pow2Q_pos s). assert (Ps' := pow2Q_pos s').
  (* clear the common denominator *)
  assert (Goal' : (pow2Q s * inject_Z (2^L + f) < pow2Q s' * inject_Z (2^L + f'))%Q).
  { destruct (Z.eq_dec s s') as [E|NE].
    - rewrite <- E. assert (f < f') by nia.
      assert ((inject_Z (2^L + f) < inject_Z (2^L + f'))%Q) by (rewrite <- Zlt_Qlt; lia).
      nra.
    - assert (Hs1 : s + 1 <= s') by lia.
      assert (Hp := pow2Q_mono_le (s+1) s' Hs1). rewrite pow2Q_succ in Hp.
      assert ((inject_Z (2^L + f) < 2 * inject_Z (2^L))%Q).
      { change 2%Q with (inject_Z 2). rewrite <- inject_Z_mult, <- Zlt_Qlt. lia. }
      assert ((inject_Z (2^L) <= inject_Z (2^L + f'))%Q) by (rewrite <- Zle_Qle; lia).
      nra. }
  unfold Qdiv. 
  assert (Hinv : (0 < / inject_Z (2^L))%Q) by (apply Qinv_lt_0_compat; exact QL).
  nra.
Qed.

(* pos_val is strictly increasing in the magnitude pattern, for every width and es *)
Theorem pos_val_mono n es p p' : 2 <= n -> 0 <= es -> 0 < p -> p < p' -> p' < 2^(n-1) ->
  (pos_val n es p < pos_val n es p')%Q.
Proof.
  intros Hn Hes Hp Hpp Hhi. unfold pos_val. cbv zeta.
  change (pow2Q (Y (n-1) p * 2^es / 2^(n-1)) * (inject_Z (2^(n-1) + (Y (n-1) p * 2^es) mod 2^(n-1)) / inject_Z (2^(n-1))))%Q
    with (valX (n-1) (Y (n-1) p * 2^es)).
  change (pow2Q (Y (n-1) p' * 2^es / 2^(n-1)) * (inject_Z (2^(n-1) + (Y (n-1) p' * 2^es) mod 2^(n-1)) / inject_Z (2^(n-1))))%Q
    with (valX (n-1) (Y (n-1) p' * 2^es)).
  apply valX_mono; [lia|].
  assert (HY := Y_mono (n-1) p p' ltac:(lia) Hp Hpp Hhi).
  assert (0 < 2^es) by (apply Z.pow_pos_nonneg; lia). nia.
Qed.
