(* C07 -- fixpnt arithmetic is exact modulo/saturating with round-to-nearest-even products.
   Statements only.  Model: FixpntModel.v (raw two's-complement integers scaled by 2^-r). *)
From Coq Require Import ZArith QArith.
From UV Require Import Num FixpntModel IntProps.
Local Open Scope Z_scope.

Theorem C07_add_modulo : forall n, 1 <= n -> forall a b, fx_add n false a b = (a + b) mod 2^n.
Proof. exact fx_add_modulo. Qed.
Print Assumptions C07_add_modulo.
Theorem C07_sub_modulo : forall n, 1 <= n -> forall a b, fx_sub n false a b = (a - b) mod 2^n.
Proof. exact fx_sub_modulo. Qed.
Print Assumptions C07_sub_modulo.
Theorem C07_add_saturate : forall n, 1 <= n -> forall a b, sgn n (fx_add n true a b) = clamp n (sgn n a + sgn n b).
Proof. exact fx_add_saturate. Qed.
Print Assumptions C07_add_saturate.
Theorem C07_sub_saturate : forall n, 1 <= n -> forall a b, sgn n (fx_sub n true a b) = clamp n (sgn n a - sgn n b).
Proof. exact fx_sub_saturate. Qed.
Print Assumptions C07_sub_saturate.
(* a Saturate result never wraps: exact when it fits, the nearer bound otherwise *)
Theorem C07_saturate_never_wraps : forall n, 1 <= n -> forall x,
  sgn n (fx_fit n true x) = clamp n x /\
  (fx_min n <= x <= fx_max n -> sgn n (fx_fit n true x) = x) /\
  (fx_max n < x -> sgn n (fx_fit n true x) = fx_max n) /\
  (x < fx_min n -> sgn n (fx_fit n true x) = fx_min n).
Proof. exact fx_fit_saturate. Qed.
Print Assumptions C07_saturate_never_wraps.
Theorem C07_mul_rne : forall n, 1 <= n -> forall r sat a b, 0 <= r ->
  exists q, fx_mul n r sat a b = fx_fit n sat q /\
    2 * Z.abs (q * 2^r - sgn n a * sgn n b) <= 2^r /\
    (2 * Z.abs (q * 2^r - sgn n a * sgn n b) = 2^r -> Z.even q = true).
Proof. intros n _. exact (fx_mul_rounds n). Qed.
Print Assumptions C07_mul_rne.
Theorem C07_div_rne : forall n, 1 <= n -> forall r sat a b, 0 <= r -> sgn n b <> 0 ->
  exists q, fx_div n r sat a b = fx_fit n sat q /\
    2 * Z.abs (q * sgn n b - sgn n a * 2^r) <= Z.abs (sgn n b) /\
    (2 * Z.abs (q * sgn n b - sgn n a * 2^r) = Z.abs (sgn n b) -> Z.even q = true).
Proof. intros n _. exact (fx_div_rounds n). Qed.
Print Assumptions C07_div_rne.
Theorem C07_rne_div_nearest_even : forall num den, 0 < den ->
  let q := rne_div num den in
  2 * Z.abs (q * den - num) <= den /\ (2 * Z.abs (q * den - num) = den -> Z.even q = true).
Proof. exact rne_div_spec. Qed.
Print Assumptions C07_rne_div_nearest_even.

Example C07_witness : fx_mul 8 4 false 0x18 0x18 = 0x24 /\ fx_mul 8 4 false 0x0b 0x08 = 0x06 /\ fx_mul 8 4 true 0x7f 0x7f = 0x7f
  /\ fx_add 8 true 0x7f 0x01 = 0x7f /\ fx_add 8 false 0x7f 0x01 = 0x80 /\ fx_div 8 4 false 0x10 0x30 = 0x05.
Proof. vm_compute. repeat split; reflexivity. Qed.
