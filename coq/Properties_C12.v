(* C12 -- results do not depend on the storage BlockType.
   The models have no block-type parameter: every instantiation must correspond to the same function of
   (family, size, operand bits); the correspondence executes each operation once per BlockType and compares
   the raw results.  What is proved about the limb level: the carry-chain addition loop of
   blockbinary / integer denotes the same integer for every limb width w >= 1 (Limbs.v, parametric in w). *)
From Coq Require Import ZArith List. Import ListNotations.
From UV Require Import Limbs IntegerModel IntProps.
Local Open Scope Z_scope.

Theorem C12_limb_addition_width_independent : forall w, 1 <= w -> forall xs ys carry,
  length xs = length ys -> wf w xs -> wf w ys -> 0 <= carry ->
  let '(r, c) := ladd w carry xs ys in
  wf w r /\ length r = length xs /\
  lvalue w r + B w ^ Z.of_nat (length xs) * c = carry + lvalue w xs + lvalue w ys.
Proof. exact ladd_correct. Qed.
Print Assumptions C12_limb_addition_width_independent.

(* the specification every block type must meet is a function of the value only *)
Theorem C12_integer_spec_is_blocktype_free : forall n, 1 <= n -> forall a b,
  i_add n a b = (a + b) mod 2^n /\ i_sub n a b = (a - b) mod 2^n /\ i_mul n a b = (a * b) mod 2^n.
Proof. intros n Hn a b. exact (conj (int_add_is_mod n Hn a b) (conj (int_sub_is_mod n Hn a b) (int_mul_is_mod n Hn a b))). Qed.
Print Assumptions C12_integer_spec_is_blocktype_free.

(* the schoolbook multiplication loop nest of integer::operator*= / blockbinary (truncated to the operands' length) denotes the
   product modulo B^len for every limb width w >= 1 -- provided the running segment is held in a wide enough accumulator *)
Theorem C12_limb_multiplication_width_independent : forall w, 1 <= w -> forall xs ys,
  length xs = length ys -> wf w ys ->
  lvalue w (lmul w xs ys (repeat 0 (length ys))) = (lvalue w xs * lvalue w ys) mod B w ^ Z.of_nat (length ys).
Proof. exact lmul_mod. Qed.
Print Assumptions C12_limb_multiplication_width_independent.

(* non-vacuity: 0xffff * 0xffff mod 2^16 computed with 8-bit, 4-bit and 16-bit limbs *)
Example C12_witness :
  lmul 8 [255; 255] [255; 255] [0; 0] = [1; 0] /\ lmul 4 [15; 15; 15; 15] [15; 15; 15; 15] [0; 0; 0; 0] = [1; 0; 0; 0] /\
  lmul 16 [65535] [65535] [0] = [1] /\ fst (ladd 8 0 [255; 1] [1; 0]) = [0; 2].
Proof. vm_compute. repeat split; reflexivity. Qed.
