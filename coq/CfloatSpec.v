From Coq Require Import ZArith QArith Qabs Lia Lqa Bool.
From UV Require Import RoundSpec RoundNE PositMono2 PositVal.
Local Open Scope Z_scope.

(* cfloat<n,es,...>: magnitude encoding m in [0, 2^(n-1)): e = m / 2^fb, f = m mod 2^fb *)
Section Cf.
Variables n es : Z.
Hypothesis Hes : 1 <= es.
Hypothesis Hn : es + 1 < n.            (* static_assert(nbits > es + 1) *)
Definition fb := n - 1 - es.            (* fraction bits *)
Definition bias := 2^(es-1) - 1.

(* integer-scaled value: V m = value(m) * 2^(bias + fb - 1)  (subnormals included) *)
Definition V (m : Z) : Z :=
  let e := m / 2^fb in let f := m mod 2^fb in
  if Z.eqb e 0 then f else (2^fb + f) * 2^(e-1).

Definition cf_val (m : Z) : Q := (inject_Z (V m) * pow2Q (1 - bias - fb))%Q.

Lemma fb_nonneg : 0 <= fb. Proof. unfold fb. lia. Qed.

Lemma V_mono m m' : 0 <= m -> m < m' -> V m < V m'.
Proof.
  intros H0 Hlt. unfold V.
  assert (Hfb := fb_nonneg).
  assert (P : 0 < 2^fb) by (apply Z.pow_pos_nonneg; lia).
  set (e := m / 2^fb). set (f := m mod 2^fb). set (e' := m' / 2^fb). set (f' := m' mod 2^fb).
  assert (Hf : 0 <= f < 2^fb) by (apply Z.mod_pos_bound; lia).
  assert (Hf' : 0 <= f' < 2^fb) by (apply Z.mod_pos_bound; lia).
  assert (Em : m = 2^fb * e + f) by (apply Z.div_mod; lia).
  assert (Em' : m' = 2^fb * e' + f') by (apply Z.div_mod; lia).
  assert (He : 0 <= e) by (apply Z.div_pos; lia).
  assert (Hee : e <= e') by (apply Z.div_le_mono; lia).
  destruct (Z.eqb_spec e 0) as [E0|E0]; destruct (Z.eqb_spec e' 0) as [E0'|E0'].
  - nia.
  - assert (1 <= 2^(e'-1)) by (apply (Z.pow_le_mono_r 2 0 (e'-1)); lia). nia.
  - lia.
  - destruct (Z.eq_dec e e') as [Eq|Ne].
    + rewrite <- Eq. assert (0 < 2^(e-1)) by (apply Z.pow_pos_nonneg; lia). nia.
    + assert (Hstep : 2^(e'-1) = 2^(e-1) * 2^(e'-e)) by (rewrite <- Z.pow_add_r by lia; f_equal; lia).
      assert (2 <= 2^(e'-e)) by (apply (Z.pow_le_mono_r 2 1 (e'-e)); lia).
      assert (0 < 2^(e-1)) by (apply Z.pow_pos_nonneg; lia).
      rewrite Hstep. nia.
Qed.

Lemma cf_val_mono m m' : 0 <= m -> m < m' -> (cf_val m < cf_val m')%Q.
Proof.
  intros H0 Hlt. unfold cf_val.
  assert (HV := V_mono m m' H0 Hlt).
  assert (P := pow2Q_pos (1 - bias - fb)).
  assert ((inject_Z (V m) < inject_Z (V m'))%Q) by (rewrite <- Zlt_Qlt; exact HV).
  nra.
Qed.

(* round-to-nearest-even over the finite magnitudes 0..top of a configuration with subnormals;
   encoding parity = index parity here; overflow handled by the caller *)
Variable top : Z.                        (* magnitude encoding of maxpos *)
Hypothesis Htop : 0 <= top.
Definition cf_rne (x : Q) : Z := rnem cf_val top Z.even x.

Theorem cf_rne_nearest x : (0 <= x)%Q -> (x <= cf_val top)%Q ->
  let r := cf_rne x in
  0 <= r <= top /\
  (forall j, 0 <= j <= top -> (Qabs (x - cf_val r) <= Qabs (x - cf_val j))%Q) /\
  (forall j, 0 <= j <= top -> j <> r -> (Qabs (x - cf_val r) == Qabs (x - cf_val j))%Q -> Z.even r = true).
Proof.
  intros Hx Hmax.
  assert (V0 : (cf_val 0 == 0)%Q).
  { unfold cf_val, V. rewrite Z.div_0_l, Zmod_0_l by (assert (0 < 2^fb) by (apply Z.pow_pos_nonneg, fb_nonneg; lia); lia).
    simpl. ring. }
  apply (rne_nearest cf_val top Htop (fun i j Hi Hij _ => cf_val_mono i j Hi Hij) Z.even).
  - intro i. replace (i + 1) with (Z.succ i) by lia. rewrite Z.even_succ. rewrite <- Z.negb_even. reflexivity.
  - rewrite V0. exact Hx.
  - exact Hmax.
Qed.
End Cf.
Print Assumptions cf_rne_nearest.
