(* C13 -- error-free transformations are error-free.
   Algorithmic model: the operation order of error_free_ops.hpp over Flocq's IEEE-754 binary64
   (BinarySingleNaN.binary_float 53 1024), see TS.v.  The exactness theorems come from Flocq's Pff2Flocq
   (TwoSum_correct, Fast2Sum_correct); they depend on the standard library's real-number axioms only. *)
From Coq Require Import ZArith Reals Lia.
From Flocq Require Import Core BinarySingleNaN Pff2Flocq.
From UV Require Import TS EFTProps.
Local Open Scope Z_scope.

(* two_sum on binary64 values: whenever no intermediate operation overflows, s + r = a + b exactly and s = RN(a + b) *)
Theorem C13_two_sum_exact_partial : forall a b : b64,
  is_finite a = true -> is_finite b = true ->
  let s := add a b in let bb := sub s a in
  let t1 := sub s bb in let da := sub a t1 in let db := sub b bb in let r := add da db in
  is_finite s = true -> is_finite bb = true -> is_finite t1 = true ->
  is_finite da = true -> is_finite db = true -> is_finite r = true ->
  (B2R (fst (two_sum a b)) + B2R (snd (two_sum a b)) = B2R a + B2R b)%R /\
  B2R (fst (two_sum a b)) = round radix2 (FLT_exp (3 - emax - prec) prec) ZnearestE (B2R a + B2R b)%R.
Proof. exact two_sum_exact_partial. Qed.
Print Assumptions C13_two_sum_exact_partial.

(* the full statement (no-overflow hypotheses discharged from |a|, |b| <= MAX/2) is kept visible; it is not proved *)
Definition C13_two_sum_exact_full : Prop := forall a b : b64,
  is_finite a = true -> is_finite b = true ->
  (Rabs (B2R a) <= bpow radix2 1023)%R -> (Rabs (B2R b) <= bpow radix2 1023)%R ->
  (B2R (fst (two_sum a b)) + B2R (snd (two_sum a b)) = B2R a + B2R b)%R.

(* ---- the operation sequences of error_free_ops.hpp, written literally over rounded real arithmetic in the binary64 format
   (EFTProps.v: FLT exponent function, emin = -1074, prec = 53, nearest-even).  First outputs are RN(exact) by definition
   (two_sum_s a b := RN64 (a + b), two_prod_p a b := RN64 (a * b), ...); the theorems are the exactness identities, for ALL
   format members.  FLT has no largest exponent, so these theorems do not speak about overflow: the property's input bounds
   (|x| <= MAX/2, products in [2^-900, 2^1000]) keep the real computation inside the range where binary64 = FLT. ---- *)
Theorem C13_two_sum_R : forall a b : R, fmt64 a -> fmt64 b -> (two_sum_s a b + two_sum_r a b = a + b)%R.
Proof. exact two_sum_R. Qed.
Print Assumptions C13_two_sum_R.
Theorem C13_two_diff_R : forall a b : R, fmt64 a -> fmt64 b -> (two_diff_s a b + two_diff_r a b = a - b)%R.
Proof. exact two_diff_R. Qed.
Print Assumptions C13_two_diff_R.
Theorem C13_quick_two_sum_R : forall a b : R, fmt64 a -> fmt64 b -> (Rabs b <= Rabs a)%R ->
  (quick_two_sum_s a b + quick_two_sum_r a b = a + b)%R.
Proof. exact quick_two_sum_R. Qed.
Print Assumptions C13_quick_two_sum_R.
(* split with the splitter 2^27 + 1 (not the re-scaled branch for |a| > 2^996): hi + lo = a and lo fits 27 bits *)
Theorem C13_split_R : forall a : R, fmt64 a ->
  (a = split_hi a + split_lo a)%R /\ generic_format radix2 (FLT_exp (-1074) 27) (split_lo a).
Proof. exact split_R. Qed.
Print Assumptions C13_split_R.
(* two_prod (Dekker): exact whenever the product is zero or at least 2^-969 in magnitude (the property asks for 2^-900) *)
Theorem C13_two_prod_R : forall a b : R, fmt64 a -> fmt64 b ->
  ((a * b = 0)%R \/ (bpow radix2 (-969) <= Rabs (a * b))%R) -> (a * b = two_prod_p a b + two_prod_r a b)%R.
Proof. exact two_prod_R. Qed.
Print Assumptions C13_two_prod_R.
(* three_sum: the three outputs sum exactly to the three inputs (that its first output is only faithful, not RN, is finding KF-C13-1) *)
Theorem C13_three_sum_R : forall x y z : R, fmt64 x -> fmt64 y -> fmt64 z ->
  let '(r0, r1, r2) := three_sum_out x y z in (r0 + r1 + r2 = x + y + z)%R.
Proof. exact three_sum_R. Qed.
Print Assumptions C13_three_sum_R.
(* not proved: two_sqr's own sequence ((hi*hi - p) + 2.0*hi*lo) + lo*lo and the generic twoSum on cfloat -- judged per case against
   the exact specification (EFTModel.v) by the correspondence streams *)

(* the splitter constant the theorems are stated for is the one in the source (re-extracted on every run into Tables.v) *)
From UV Require Import Tables.
Theorem C13_splitter_matches_source : src_split_bits = 27 /\ src_splitter = 2 ^ src_split_bits + 1 /\ IZR src_splitter = splitter.
Proof.
  split; [reflexivity|]. split; [reflexivity|].
  unfold splitter, src_splitter. rewrite <- (IZR_Zpower radix2 27) by lia. rewrite <- plus_IZR. reflexivity.
Qed.
Print Assumptions C13_splitter_matches_source.
