(* C13 -- error-free transformations are error-free.
   Algorithmic model: the operation order of error_free_ops.hpp over Flocq's IEEE-754 binary64
   (BinarySingleNaN.binary_float 53 1024), see TS.v.  The exactness theorems come from Flocq's Pff2Flocq
   (TwoSum_correct, Fast2Sum_correct); they depend on the standard library's real-number axioms only. *)
From Coq Require Import ZArith Reals Lia.
From Flocq Require Import Core BinarySingleNaN Pff2Flocq.
From UV Require Import TS.
Local Open Scope Z_scope.

(* two_sum on binary64 values: whenever no intermediate operation overflows, s + r = a + b exactly and s = RN(a + b) *)
Theorem C13_two_sum_exact_partial : forall a b : b64,
  is_finite a = true -> is_finite b = true ->
  let s := add a b in let bb := sub s a in
  let t1 := sub s bb in let da := sub a t1 in let db := sub b bb in let r := add da db in
  is_finite s = true -> is_finite bb = true -> is_finite t1 = true ->
  is_finite da = true -> is_finite db = true -> is_finite r = true ->
  (B2R (fst (two_sum a b)) + B2R (snd (two_sum a b)) = B2R a + B2R b)%R /\
  B2R (fst (two_sum a b)) = round radix2 (FLT_exp (3 - emax - prec) prec) ZnearestE (B2R a + B2R b)%R.
Proof. exact two_sum_exact_partial. Qed.
Print Assumptions C13_two_sum_exact_partial.

(* the full statement (no-overflow hypotheses discharged from |a|, |b| <= MAX/2) is kept visible; it is not proved *)
Definition C13_two_sum_exact_full : Prop := forall a b : b64,
  is_finite a = true -> is_finite b = true ->
  (Rabs (B2R a) <= bpow radix2 1023)%R -> (Rabs (B2R b) <= bpow radix2 1023)%R ->
  (B2R (fst (two_sum a b)) + B2R (snd (two_sum a b)) = B2R a + B2R b)%R.

(* quick_two_sum at the level of rounded real arithmetic in the binary64 format (emin = -1074, prec = 53):
   s = RN(x + y), r = RN(y - RN(s - x)) satisfy s + r = x + y whenever |y| <= |x| *)
Theorem C13_quick_two_sum_R : forall x y : R,
  generic_format radix2 (FLT_exp (-1074) 53) x -> generic_format radix2 (FLT_exp (-1074) 53) y ->
  (Rabs y <= Rabs x)%R ->
  let RN := round radix2 (FLT_exp (-1074) 53) (Znearest (fun n => negb (Z.even n))) in
  (RN (x + y) + RN (y + RN (x - RN (x + y))) = x + y)%R.
Proof.
  intros x y Fx Fy Hxy RN.
  apply (Fast2Sum_correct (-1074) 53 (fun n => negb (Z.even n)) ltac:(lia) ltac:(lia) choice_sym x y Fx Fy Hxy).
Qed.
Print Assumptions C13_quick_two_sum_R.
