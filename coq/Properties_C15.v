(* C15 -- conversions between configurations and types round correctly.
   In the models a conversion is "decode the source, round into the target", so the statements are those of
   the target's rounding function applied to a representable source value. *)
From Coq Require Import ZArith QArith.
From UV Require Import PositSpec Num PositModel PositProps PositFast FixpntModel IntegerModel IntProps CfloatSpec CfloatModel CfloatProps.
Local Open Scope Z_scope.

(* posit -> posit: the Posit-Standard rounding of the source value in the target configuration *)
Theorem C15_posit_to_posit : forall n2 es2, 2 <= n2 -> 0 <= es2 -> forall (s : bool) (q : Q),
  p_of_num_f n2 es2 (Fin s q) = p_of_num n2 es2 (Fin s q) /\ std_round n2 es2 (if s then - q else q)%Q (p_of_num n2 es2 (Fin s q)).
Proof. intros n2 es2 Hn Hes s q. split; [apply p_of_num_f_eq; assumption|]. apply pround_std; assumption. Qed.
Print Assumptions C15_posit_to_posit.
(* identity whenever the source value is representable in the target (in particular widening then narrowing) *)
Theorem C15_posit_identity_when_representable : forall n es, 2 <= n -> 0 <= es -> forall a x,
  0 <= a < 2^n -> pval n es a = Some x -> pround n es x = a.
Proof. exact pround_pval. Qed.
Print Assumptions C15_posit_identity_when_representable.
Theorem C15_fixpnt_identity_when_representable : forall n, 1 <= n -> forall r sat a, 0 <= r -> 0 <= a < 2^n ->
  fx_of_Q n r sat (fx_val n r a) = a.
Proof. exact fx_roundtrip. Qed.
Print Assumptions C15_fixpnt_identity_when_representable.
Theorem C15_cfloat_identity_when_representable : forall c, 1 <= c_es c -> c_es c + 1 < c_n c -> forall m,
  c_lo c <= m <= c_top c -> 0 < m -> cf_round_mag c (cf_val (c_n c) (c_es c) m) = m.
Proof. exact cf_round_mag_exact. Qed.
Print Assumptions C15_cfloat_identity_when_representable.
(* integer -> integer: widening sign-extends, narrowing preserves the value when it fits *)
Theorem C15_integer_widen : forall n m a, 1 <= n -> n <= m -> sgn m (i_conv n m a) = sgn n a.
Proof. exact int_widen. Qed.
Print Assumptions C15_integer_widen.
Theorem C15_integer_widen_then_narrow : forall n m a, 1 <= n -> n <= m -> 0 <= a < 2^n -> i_conv m n (i_conv n m a) = a.
Proof.
  intros n m a Hn Hm Ha. unfold i_conv at 1. rewrite (int_widen n m a Hn Hm). rewrite (wrap_sgn n Hn). apply (wrap_id n). exact Ha.
Qed.
Print Assumptions C15_integer_widen_then_narrow.

Example C15_witness : p_of_num 8 0 (p_to_num 16 1 0x4100) = 0x42 /\ p_of_num 16 1 (p_to_num 8 0 0x42) = 0x4100
  /\ fx_of_Q 8 2 false (fx_val 8 4 0x1a) = 0x06 /\ fx_of_Q 8 4 true (fx_val 12 4 0x7ff) = 0x7f /\ i_conv 8 12 0x80 = 0xf80.
Proof. vm_compute. repeat split; reflexivity. Qed.

(* lns -> lns: the source value is 2^(E1/2^r1) exactly; whenever the target has at least as many fraction bits and the scaled exponent
   is in its range, the only result the judge accepts is that very value (identity when representable), in both behaviours *)
From UV Require Import LnsModel LnsProps.
Theorem C15_lns_identity_when_representable : forall n1 r1 a n2 r2 sat c s E1,
  0 <= r1 <= r2 -> l_decode n1 a = LVal s E1 -> l_emin n2 <= E1 * 2 ^ (r2 - r1) <= l_emax n2 ->
  l2l_accept n1 r1 a n2 r2 sat c = true -> l_decode n2 c = LVal s (E1 * 2 ^ (r2 - r1)).
Proof. exact l2l_exact. Qed.
Print Assumptions C15_lns_identity_when_representable.
Example C15_lns_witness :
  l2l_accept 8 2 0x05 8 4 true 0x14 = true /\ l2l_accept 8 2 0x05 8 4 true 0x15 = false /\
  l2l_accept 8 4 0x16 8 2 true 0x05 = true /\ l2l_accept 8 4 0x16 8 2 true 0x06 = true /\ l2l_accept 8 4 0x17 8 2 true 0x05 = false.
Proof. vm_compute. repeat split; reflexivity. Qed.
