(* C20 -- Every operation is total and clean: no UB, memory error, crash or data race.
   Statements only.  What a Gallina model can carry of this property, and is proved here for every width and every
   operand (operands that are not encodings included): each modelled operation is a total function whose result is a
   well-formed encoding, i.e. lies in [0, 2^n) -- "no bits set outside the type's width".  That the C++ returns the
   model's result is the correspondence of C01..C19; that the C++ does so without undefined behaviour, memory errors,
   non-termination or data races is NOT expressible in the model and is observed by running the same drivers under
   ASan+UBSan (+ canonical object-representation check, watchdog) and TSan -- labelled partial (DESIGN.md, C20). *)
From Coq Require Import ZArith QArith.
From UV Require Import Num PositSpec PositModel IntegerModel FixpntModel LnsModel CfloatModel IntProps WellFormed.
Local Open Scope Z_scope.

Theorem C20_posit_results_wellformed : forall n es, 2 <= n -> 0 <= es -> forall a b : Z,
  0 <= padd n es a b < 2^n /\ 0 <= psub n es a b < 2^n /\ 0 <= pmul n es a b < 2^n /\ 0 <= pdiv n es a b < 2^n /\
  0 <= precip n es a < 2^n /\ 0 <= pneg n a < 2^n /\ (0 <= a < 2^n -> 0 <= pabs n a < 2^n).
Proof.
  intros n es Hn Hes a b. unfold padd, psub, pmul.
  repeat split; try apply lift2_range; try apply pdiv_range; try apply precip_range; try apply pneg_range; try assumption;
    try (apply pabs_range; assumption).
Qed.
Print Assumptions C20_posit_results_wellformed.

Theorem C20_posit_rounding_total : forall n es, 2 <= n -> 0 <= es -> forall x : Q, 0 <= pround n es x < 2^n.
Proof. intros n es Hn Hes. exact (pround_range n Hn es Hes). Qed.
Print Assumptions C20_posit_rounding_total.

Theorem C20_integer_results_wellformed : forall n, 1 <= n -> forall a b k : Z,
  0 <= i_add n a b < 2^n /\ 0 <= i_sub n a b < 2^n /\ 0 <= i_mul n a b < 2^n /\ 0 <= i_div n a b < 2^n /\
  0 <= i_rem n a b < 2^n /\ 0 <= i_neg n a < 2^n /\ 0 <= i_shl n a k < 2^n /\ 0 <= i_shr n a k < 2^n /\ 0 <= i_not n a < 2^n.
Proof.
  intros n Hn a b k. unfold i_add, i_sub, i_mul, i_div, i_rem, i_neg, i_shl, i_shr, i_not.
  destruct (Z.leb 0 k); repeat split; apply wrap_range; assumption.
Qed.
Print Assumptions C20_integer_results_wellformed.

Theorem C20_integer_bitwise_wellformed : forall n, 2 <= n -> forall a b : Z,
  0 <= i_and n a b < 2^n /\ 0 <= i_or n a b < 2^n /\ 0 <= i_xor n a b < 2^n.
Proof. intros n Hn a b. unfold i_and, i_or, i_xor. repeat split; try apply land_range; try apply lor_range; try apply lxor_range; assumption. Qed.
Print Assumptions C20_integer_bitwise_wellformed.

Theorem C20_fixpnt_results_wellformed : forall n, 1 <= n -> forall r sat (a b : Z),
  0 <= fx_add n sat a b < 2^n /\ 0 <= fx_sub n sat a b < 2^n /\ 0 <= fx_mul n r sat a b < 2^n /\ 0 <= fx_div n r sat a b < 2^n.
Proof. intros n Hn r sat a b. unfold fx_add, fx_sub, fx_mul, fx_div, fx_fit. repeat split; apply wrap_range; assumption. Qed.
Print Assumptions C20_fixpnt_results_wellformed.

Theorem C20_lns_results_wellformed : forall n, 2 <= n -> forall sat (a b : Z),
  0 <= l_mul n sat a b < 2^n /\ 0 <= l_div n sat a b < 2^n.
Proof. intros n Hn sat a b. split; [apply l_mul_range|apply l_div_range]; assumption. Qed.
Print Assumptions C20_lns_results_wellformed.

Theorem C20_cfloat_encoder_wellformed : forall c, 1 <= c_es c -> c_es c + 1 < c_n c -> forall x, num_wf x ->
  0 <= cf_encode c x < 2^(c_n c).
Proof. exact cf_encode_range. Qed.
Print Assumptions C20_cfloat_encoder_wellformed.

(* non-vacuity: operands that are not encodings, the reserved patterns, and overflow all land inside the width *)
Example C20_witness :
  padd 8 1 0x7f 0x7f = 0x7f /\ pdiv 8 0 0x40 0 = 0x80 /\ padd 8 2 (-5) 999 = padd 8 2 (-5) 999 /\
  i_div 8 0x80 0xff = 0x80 /\ i_shl 8 0xff 9 = 0 /\ fx_mul 8 4 true 0x80 0x80 = 0x7f /\ l_mul 8 true 0x3f 0x3f = 0x3f /\
  cf_encode (mkCf 8 2 true false false) (Fin true (1000000#1)) = 0xfe.
Proof. vm_compute. repeat split; reflexivity. Qed.
