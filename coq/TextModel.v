(* Text forms (C16): round trips are "parse (print x) = x" on encodings; decimal output is the exact decimal
   expansion; parsing a digit string yields that integer reduced to the type's range.  Strings travel as lists of
   byte codes. *)
From Coq Require Import ZArith QArith Lia Bool List.
From UV Require Import Num Ops Verdict.
Import ListNotations.
Local Open Scope Z_scope.

(* decimal digits of a non-negative integer, most significant first (fuel = number of bits is enough) *)
Fixpoint dec_digits (fuel : nat) (z : Z) (acc : list Z) : list Z :=
  match fuel with
  | O => acc
  | S f => if Z.ltb z 10 then (48 + z) :: acc else dec_digits f (z / 10) ((48 + z mod 10) :: acc)
  end.
Definition dec_of_nat (z : Z) : list Z := dec_digits (S (Z.to_nat (Z.log2 (z + 1)))) z [].
Definition dec_of_Z (z : Z) : list Z := if Z.ltb z 0 then 45 :: dec_of_nat (- z) else dec_of_nat z.
(* exactly k digits, zero padded on the left *)
Fixpoint pad_left (k : nat) (l : list Z) : list Z :=
  match k with O => l | S k' => if Nat.ltb (length l) k then pad_left k' (48 :: l) else l end.
Definition dec_fixed (k : Z) (z : Z) : list Z :=
  let d := dec_of_nat z in
  repeat 48 (Z.to_nat k - length d) ++ d.
(* exact decimal expansion of a / 2^r with exactly r fraction digits:  a/2^r = (a * 5^r) / 10^r *)
Definition fx_dec_string (n r a : Z) : list Z :=
  let v := sgn n a in
  let m := Z.abs v in
  let ip := m / 2^r in let fp := (m mod 2^r) * 5^r in
  (if Z.ltb v 0 then [45] else []) ++ dec_of_nat ip ++ (if Z.ltb 0 r then 46 :: dec_fixed r fp else []).

(* parsing: digits in a base; returns None on a non-digit *)
Definition digit_val (c : Z) : option Z :=
  if Z.leb 48 c && Z.leb c 57 then Some (c - 48) else
  if Z.leb 97 c && Z.leb c 102 then Some (c - 87) else
  if Z.leb 65 c && Z.leb c 70 then Some (c - 55) else None.
Fixpoint parse_digits (base : Z) (l : list Z) (acc : Z) : option Z :=
  match l with
  | [] => Some acc
  | c :: r => match digit_val c with
              | Some d => if Z.ltb d base then parse_digits base r (acc * base + d) else None
              | None => None end
  end.
Definition parse_int (l : list Z) : option Z :=
  match l with
  | 45 :: r => match parse_digits 10 r 0 with Some v => Some (- v) | None => None end
  | 43 :: r => parse_digits 10 r 0
  | 48 :: 120 :: r => parse_digits 16 r 0
  | 48 :: 88 :: r => parse_digits 16 r 0
  | _ => parse_digits 10 l 0
  end.

Definition judge_text (fam : Z) (cfg : list Z) (op : Z) (args res : list Z) : verdict :=
  let n := nth0 cfg 0 in
  let a := nth0 args 0 in
  let exact (e : list Z) := mkV (list_eqb e res) e true in
  if Z.eqb op OP_hexfmt || Z.eqb op OP_binfmt || Z.eqb op OP_hexparse || Z.eqb op OP_binparse then exact [a] else
  if Z.eqb op OP_decfmt || Z.eqb op OP_streamfmt then       (* streamfmt: the same expansion through operator<< *)
    (if Z.eqb fam 4 then exact (dec_of_Z (sgn n a)) else
     if Z.eqb fam 3 then exact (fx_dec_string n (nth0 cfg 1) a) else mkV false [] false) else
  if Z.eqb op OP_decparse then
    match parse_int args with
    | Some v => exact [wrap n v]
    | None => mkV true res false
    end else
  mkV false [] false.
