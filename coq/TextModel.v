(* Text forms (C16): round trips are "parse (print x) = x" on encodings; decimal output is the exact decimal
   expansion; parsing a digit string yields that integer reduced to the type's range.  Strings travel as lists of
   byte codes. *)
From Coq Require Import ZArith QArith Lia Bool List.
From UV Require Import Num Ops Verdict.
Import ListNotations.
Local Open Scope Z_scope.

(* decimal digits of a non-negative integer, most significant first (fuel = number of bits is enough) *)
Fixpoint dec_digits (fuel : nat) (z : Z) (acc : list Z) : list Z :=
  match fuel with
  | O => acc
  | S f => if Z.ltb z 10 then (48 + z) :: acc else dec_digits f (z / 10) ((48 + z mod 10) :: acc)
  end.
Definition dec_of_nat (z : Z) : list Z := dec_digits (S (Z.to_nat (Z.log2 (z + 1)))) z [].
Definition dec_of_Z (z : Z) : list Z := if Z.ltb z 0 then 45 :: dec_of_nat (- z) else dec_of_nat z.
(* exactly k digits, zero padded on the left *)
Fixpoint pad_left (k : nat) (l : list Z) : list Z :=
  match k with O => l | S k' => if Nat.ltb (length l) k then pad_left k' (48 :: l) else l end.
Definition dec_fixed (k : Z) (z : Z) : list Z :=
  let d := dec_of_nat z in
  repeat 48 (Z.to_nat k - length d) ++ d.
(* exact decimal expansion of a / 2^r with exactly r fraction digits:  a/2^r = (a * 5^r) / 10^r *)
Definition fx_dec_string (n r a : Z) : list Z :=
  let v := sgn n a in
  let m := Z.abs v in
  let ip := m / 2^r in let fp := (m mod 2^r) * 5^r in
  (if Z.ltb v 0 then [45] else []) ++ dec_of_nat ip ++ (if Z.ltb 0 r then 46 :: dec_fixed r fp else []).

(* parsing: digits in a base; returns None on a non-digit *)
Definition digit_val (c : Z) : option Z :=
  if Z.leb 48 c && Z.leb c 57 then Some (c - 48) else
  if Z.leb 97 c && Z.leb c 102 then Some (c - 87) else
  if Z.leb 65 c && Z.leb c 70 then Some (c - 55) else None.
Fixpoint parse_digits (base : Z) (l : list Z) (acc : Z) : option Z :=
  match l with
  | [] => Some acc
  | c :: r => match digit_val c with
              | Some d => if Z.ltb d base then parse_digits base r (acc * base + d) else None
              | None => None end
  end.
Definition parse_int (l : list Z) : option Z :=
  match l with
  | 45 :: r => match parse_digits 10 r 0 with Some v => Some (- v) | None => None end
  | 43 :: r => parse_digits 10 r 0
  | 48 :: 120 :: r => parse_digits 16 r 0
  | 48 :: 88 :: r => parse_digits 16 r 0
  | _ => parse_digits 10 l 0
  end.

(* fixed-width hexadecimal (lower case) and binary digit strings, most significant first *)
Definition hexit (d : Z) : Z := if Z.ltb d 10 then 48 + d else 87 + d.
Fixpoint hex_fixed (k : nat) (a : Z) : list Z :=
  match k with O => [] | S k' => hex_fixed k' (a / 16) ++ [hexit (a mod 16)] end.
Definition hexitU (d : Z) : Z := if Z.ltb d 10 then 48 + d else 55 + d.   (* upper case: integer to_hex *)
Fixpoint hex_fixedU (k : nat) (a : Z) : list Z :=
  match k with O => [] | S k' => hex_fixedU k' (a / 16) ++ [hexitU (a mod 16)] end.
(* integer to_hex: "0x" and 1 + (nbits-1)/4 upper-case hexits of the two's complement pattern *)
Definition int_hex_string (n a : Z) : list Z := 48 :: 120 :: hex_fixedU (Z.to_nat (1 + (n - 1) / 4)) a.
Fixpoint bin_fixed (k : nat) (a : Z) : list Z :=
  match k with O => [] | S k' => bin_fixed k' (a / 2) ++ [48 + a mod 2] end.
(* posit hex_format: nbits '.' es 'x' to_hex(bits) 'p', where to_hex carries its own "0x" prefix and prints one hexit when nbits < 4 *)
Definition posit_hex_string (n es a : Z) : list Z :=
  dec_of_nat n ++ [46] ++ dec_of_nat es ++ [120; 48; 120] ++
  hex_fixed (Z.to_nat (if Z.ltb n 4 then 1 else (n + 3) / 4)) a ++ [112].
(* cfloat to_binary: 0b sign '.' exponent '.' fraction *)
Definition cf_bin_string (n es a : Z) : list Z :=
  let f := n - 1 - es in
  [48; 98] ++ bin_fixed 1 (a / 2^(n-1)) ++ [46] ++ bin_fixed (Z.to_nat es) ((a / 2^f) mod 2^es) ++ [46] ++ bin_fixed (Z.to_nat f) (a mod 2^f).
(* fixpnt to_binary: 0b integer bits '.' fraction bits; a lone 0 when there are no integer bits *)
Definition fx_bin_string (n r a : Z) : list Z :=
  [48; 98] ++ (if Z.ltb r n then bin_fixed (Z.to_nat (n - r)) (a / 2^r) else [48]) ++ [46] ++ bin_fixed (Z.to_nat r) (a mod 2^r).

(* cfloat::assign(const std::string&), transcribed: a first pass keeps the 0/1/. characters after "0b" (dropping the
   nibble marker, rejecting anything else) and counts them; a second pass fills the bits from the top and counts the
   characters of the middle field.  Every rejection leaves the cleared encoding 0. *)
Fixpoint cf_scan (l : list Z) (nb nd : Z) (acc : list Z) : option (Z * Z * list Z) :=
  match l with
  | [] => Some (nb, nd, rev acc)
  | c :: r => if Z.eqb c 48 || Z.eqb c 49 then cf_scan r (nb + 1) nd (c :: acc)
              else if Z.eqb c 46 then cf_scan r nb (nd + 1) (c :: acc)
              else if Z.eqb c 39 then cf_scan r nb nd acc else None
  end.
Fixpoint cf_fill (es : Z) (l : list Z) (field nrexp bit v : Z) : option Z :=
  match l with
  | [] => if Z.eqb field 2 then Some v else None
  | c :: r => if Z.eqb c 46
              then (if Z.eqb (field + 1) 2 && negb (Z.eqb nrexp es) then None
                    else cf_fill es r (field + 1) (if Z.eqb (field + 1) 1 then nrexp + 1 else nrexp) bit v)
              else cf_fill es r field (if Z.eqb field 1 then nrexp + 1 else nrexp) (bit - 1) (v + (c - 48) * 2 ^ (bit - 1))
  end.
Definition cf_assign (n es : Z) (s : list Z) : Z :=
  match s with
  | 48 :: 98 :: r =>
      match cf_scan r 0 0 [] with
      | Some (nb, nd, bits) =>
          if Z.eqb nb n && Z.eqb nd 2 then match cf_fill es bits 0 (-1) n 0 with Some v => v | None => 0 end else 0
      | None => 0
      end
  | _ => 0
  end.

(* fixpnt::assign, binary branch, transcribed: the string is walked from its end; 0/1 set the next bit position (positions
   beyond nbits are ignored by setbit), the nibble marker is skipped, the radix point must arrive at position rbits
   (otherwise the value is cleared), and the walk stops at the 'b' of the prefix. *)
Fixpoint fx_fill (r : Z) (l : list Z) (pos v : Z) : Z :=
  match l with
  | [] => v
  | c :: t => if Z.eqb c 98 then v
              else if Z.eqb c 39 then fx_fill r t pos v
              else if Z.eqb c 46 then (if Z.eqb pos r then fx_fill r t pos v else 0)
              else if Z.eqb c 48 then fx_fill r t (pos + 1) v
              else fx_fill r t (pos + 1) (v + 2 ^ pos)
  end.
Definition fx_assign (n r : Z) (s : list Z) : Z :=
  match s with
  | 48 :: 98 :: _ :: _ => (fx_fill r (rev s) 0 0) mod 2 ^ n
  | _ => 0     (* shorter than 3 characters: cleared; the decimal branch is "TBD" in the library and is not modelled *)
  end.

(* ---- posit text parser (posit_parse.hpp), the branch taken when the text matches [\d]+\.[0-9][xX][\w]+[p]* ---- *)
Definition isdigb (c : Z) : bool := Z.leb 48 c && Z.leb c 57.
Definition iswordb (c : Z) : bool := isdigb c || (Z.leb 65 c && Z.leb c 90) || (Z.leb 97 c && Z.leb c 122) || Z.eqb c 95.
Fixpoint span_dig (l : list Z) : list Z * list Z :=
  match l with
  | c :: r => if isdigb c then let (d, t) := span_dig r in (c :: d, t) else ([], l)
  | [] => ([], [])
  end.
Fixpoint take_until (c0 : Z) (l : list Z) : list Z :=
  match l with [] => [] | c :: r => if Z.eqb c c0 then [] else c :: take_until c0 r end.
(* std::istream >> std::hex >> uint64_t: optional 0x / 0X, then the longest run of hexits; no hexit: 0; more than 64 bits: all ones *)
Fixpoint hex_run (l : list Z) (acc : Z) (seen : bool) : Z * bool :=
  match l with
  | [] => (acc, seen)
  | c :: r => match digit_val c with Some d => hex_run r (acc * 16 + d) true | None => (acc, seen) end
  end.
Definition stream_hex (l : list Z) : Z :=
  let body := match l with 48 :: 120 :: r => r | 48 :: 88 :: r => r | _ => l end in
  let (v, seen) := hex_run body 0 false in
  if seen then (if Z.ltb v (2 ^ 64) then v else 2 ^ 64 - 1) else 0.
Definition posit_regex_fields (s : list Z) : option (list Z * list Z) :=    (* digits before '.', text after the x *)
  let (d, r1) := span_dig s in
  match d, r1 with
  | _ :: _, 46 :: e :: x :: (w :: _) as r2 =>
      if isdigb e && (Z.eqb x 120 || Z.eqb x 88) && forallb iswordb r2 then Some (d, r2) else None
  | _, _ => None
  end.
(* None: the text is not of the posit form (the library then reads it as a floating-point literal: not modelled) *)
Definition posit_parse (n : Z) (s : list Z) : option Z :=
  match posit_regex_fields s with
  | Some (d, r2) =>
      match parse_digits 10 d 0 with
      | Some nb =>
          let raw := stream_hex (take_until 112 r2) in
          if Z.ltb n nb then Some ((raw / 2 ^ (nb - n)) mod 2 ^ n)      (* raw < 2^64: a shift by 64 or more leaves 0 *)
          else Some (raw mod 2 ^ n)
      | None => None
      end
  | None => None
  end.


Definition judge_text (fam : Z) (cfg : list Z) (op : Z) (args res : list Z) : verdict :=
  let n := nth0 cfg 0 in
  let a := nth0 args 0 in
  let exact (e : list Z) := mkV (list_eqb e res) e true in
  if Z.eqb op OP_hexfmt || Z.eqb op OP_binfmt || Z.eqb op OP_hexparse || Z.eqb op OP_binparse then exact [a] else
  if Z.eqb op OP_decfmt || Z.eqb op OP_streamfmt then       (* streamfmt: the same expansion through operator<< *)
    (if Z.eqb fam 4 then exact (dec_of_Z (sgn n a)) else
     if Z.eqb fam 3 then exact (fx_dec_string n (nth0 cfg 1) a) else mkV false [] false) else
  if Z.eqb op OP_hexstr then (if Z.eqb fam 1 then exact (posit_hex_string n (nth0 cfg 1) a) else
                              if Z.eqb fam 4 then exact (int_hex_string n a) else mkV false [] false) else
  if Z.eqb op OP_binstr then
    (if Z.eqb fam 2 then exact (cf_bin_string n (nth0 cfg 1) a) else
     if Z.eqb fam 3 then exact (fx_bin_string n (nth0 cfg 1) a) else mkV false [] false) else
  if Z.eqb op OP_strassign then          (* args = the bytes of the string handed to assign() / parse() *)
    (if Z.eqb fam 1 then match posit_parse n args with Some v => exact [v] | None => mkV true res false end else
     if Z.eqb fam 2 then exact [cf_assign n (nth0 cfg 1) args] else
     if Z.eqb fam 3 then
       match args with
       | 48 :: 98 :: _ => exact [fx_assign n (nth0 cfg 1) args]
       | _ => mkV true res false       (* not a 0b string: the library's decimal branch is marked TBD; outside the property *)
       end else mkV false [] false) else
  if Z.eqb op OP_decparse then
    match parse_int args with
    | Some v => exact [wrap n v]
    | None => mkV true res false
    end else
  mkV false [] false.
