(* Family dispatch: the single entry point of the extracted model. *)
From Coq Require Import ZArith List Bool.
From UV Require Import Verdict PositJudge FixpntModel IntegerModel LnsModel CfloatModel ArealModel QuireModel SqrtModel Ops TextModel ElasticModel EFTModel DDModel LimitsModel.
Import ListNotations.
Local Open Scope Z_scope.
Definition FAM_posit : Z := 1.
Definition FAM_cfloat : Z := 2.
Definition FAM_areal : Z := 6.
Definition FAM_quire : Z := 7.
Definition FAM_fixpnt : Z := 3.
Definition FAM_integer : Z := 4.
Definition FAM_lns : Z := 5.
Definition judge (fam : Z) (cfg : list Z) (op : Z) (args res : list Z) : verdict :=
  if Z.leb OP_hexfmt op && Z.leb op OP_strassign && Z.ltb fam 11 then judge_text fam cfg op args res else
  if Z.eqb op OP_limits then judge_limits fam cfg res else
  if Z.eqb fam FAM_posit then judge_posit cfg op args res else
  if Z.eqb fam FAM_cfloat then (if Z.eqb op OP_gen_two_sum then judge_gen_two_sum cfg args res else if Z.eqb op OP_sqrt then judge_sqrt_cfloat cfg args res else judge_cfloat cfg op args res) else
  if Z.eqb fam FAM_areal then judge_areal cfg op args res else
  if Z.eqb fam 8 then judge_dd 2 106 cfg op args res else
  if Z.eqb fam 9 then judge_dd 4 212 cfg op args res else
  if Z.eqb fam 10 then judge_eft cfg op args res else
  if Z.eqb fam 11 then judge_einteger cfg op args res else
  if Z.eqb fam 12 then judge_edecimal cfg op args res else
  if Z.eqb fam 13 then judge_erational cfg op args res else
  if Z.eqb fam FAM_quire then judge_quire cfg op args res else
  if Z.eqb fam FAM_fixpnt then (if Z.eqb op OP_sqrt then judge_sqrt_fixpnt cfg args res else judge_fixpnt cfg op args res) else
  if Z.eqb fam FAM_integer then (if Z.eqb op OP_conv_via_f64 then judge_i2p cfg args res else if Z.eqb op OP_sqrt then judge_sqrt_integer cfg args res else judge_integer cfg op args res) else
  if Z.eqb fam FAM_lns then judge_lns cfg op args res else
  mkV false [] false.
