(* Family dispatch: the single entry point of the extracted model. *)
From Coq Require Import ZArith List Bool.
From UV Require Import Verdict PositJudge.
Import ListNotations.
Local Open Scope Z_scope.
Definition FAM_posit : Z := 1.
Definition judge (fam : Z) (cfg : list Z) (op : Z) (args res : list Z) : verdict :=
  if Z.eqb fam FAM_posit then judge_posit cfg op args res else
  mkV false [] false.
