(* Executable model of areal<n, es, bt>: sign | es exponent bits | fb = n-2-es fraction bits | ubit.
   The n-1 bits above the ubit are an exact lattice laid out like a cfloat with subnormals and
   supernormals; the all-ones exponent+fraction pattern is inf (ubit clear) or NaN (ubit set).
   ubit set = "the open interval between this exact value and the next one away from zero". *)
From Coq Require Import ZArith QArith Qabs Lia Bool List.
From UV Require Import RoundSpec RoundNE PositMono2 PositVal CfloatSpec Num Ops Verdict PositFast CfloatModel NativeJudge.
Import ListNotations.
Local Open Scope Z_scope.

Section A.
Variables n es : Z.
Definition a_allones : Z := 2^(n-2) - 1.          (* exact-part magnitude pattern of inf/NaN *)
Definition a_maxm : Z := 2^(n-2) - 2.             (* largest finite exact-part pattern *)
Definition a_val (m : Z) : Q := cf_val (n-1) es m.
Definition a_cfg : cfcfg := mkCf (n-1) es true true false.

(* floor pattern of a non-negative rational, capped at a_maxm *)
Definition a_floor (q : Q) : Z :=
  if Qle_bool (a_val a_maxm) q then a_maxm
  else fl_g a_val a_maxm (cf_guess a_cfg q) q.

Definition a_encode (x : num) : Z :=
  match x with
  | NaN => 2 * a_allones + 1
  | Inf s => (if s then 2^(n-1) else 0) + 2 * a_allones
  | Fin s q =>
      let m := a_floor q in
      (if s then 2^(n-1) else 0) + 2 * m + (if Qeq_bool (a_val m) q then 0 else 1)
  end.

(* lower bound (the exact part) of an encoding *)
Definition a_decode_lower (bits : Z) : num :=
  let s := Z.testbit bits (n-1) in
  let m := (bits / 2) mod 2^(n-2) in
  let u := Z.odd bits in
  if Z.eqb m a_allones then (if u then NaN else Inf s) else Fin s (a_val m).

(* the enclosure property itself, as a checker on an arbitrary encoding (used in the theorem and
   as the acceptance predicate): ubit clear -> value = x; ubit set -> val m < |x| < val (m+1) *)
Definition a_encloses (q : Q) (s : bool) (bits : Z) : bool :=
  let s' := Z.testbit bits (n-1) in
  let m := (bits / 2) mod 2^(n-2) in
  let u := Z.odd bits in
  Bool.eqb s s' && Z.leb m a_maxm &&
  if u then Qlt_bool (a_val m) q && (Z.eqb m a_maxm || Qlt_bool q (a_val (m+1)))
  else Qeq_bool (a_val m) q.
End A.

Definition judge_areal (cfg : list Z) (op : Z) (args res : list Z) : verdict :=
  let n := nth0 cfg 0 in let es := nth0 cfg 1 in
  let a := nth0 args 0 in let r := nth0 res 0 in
  let exact (e : list Z) (nt : bool) := mkV (list_eqb e res) e nt in
  let from (x : num) :=
    match x with
    | NaN => mkV (Z.eqb (r mod 2^(n-1)) (2 * a_allones n + 1)) [a_encode n es x] true
    | _ => exact [a_encode n es x] true
    end in
  if Z.eqb op OP_from_f64 then from (f64_decode a) else
  if Z.eqb op OP_from_f32 then from (f32_decode a) else
  if Z.eqb op OP_to_f64 then judge_to_f64 (a_decode_lower n es a) res else
  if Z.eqb op OP_to_f32 then judge_to_f32 (a_decode_lower n es a) res else
  if Z.eqb op OP_to_f64_rt then
    if negb (ieee_exact 11 52 (a_decode_lower n es a)) then mkV true res false else
    (* lower bound -> double -> areal gives the exact encoding (ubit cleared) *)
    match a_decode_lower n es a with
    | NaN => mkV (Z.eqb (r mod 2^(n-1)) (2 * a_allones n + 1)) [a] true
    | _ => exact [2 * (a / 2)] true
    end else
  mkV false [] false.
