From Coq Require Import ZArith List Bool.
Import ListNotations.
Local Open Scope Z_scope.
(* what the judge says about one case: acceptable?, the model's own answer, is the case non-trivial? *)
Record verdict := mkV { v_ok : bool; v_model : list Z; v_nontrivial : bool }.
Definition b2z (b : bool) : Z := if b then 1 else 0.
Fixpoint list_eqb (a b : list Z) : bool :=
  match a, b with
  | [], [] => true
  | x :: a', y :: b' => Z.eqb x y && list_eqb a' b'
  | _, _ => false
  end.
Lemma list_eqb_eq a : forall b, list_eqb a b = true <-> a = b.
Proof.
  induction a as [|x a IH]; intros [|y b]; cbn [list_eqb]; split; try congruence; try discriminate.
  - intro H. apply andb_prop in H. destruct H as [H1 H2]. apply Z.eqb_eq in H1. apply IH in H2. congruence.
  - intro H. injection H as -> ->. rewrite Z.eqb_refl. cbn. apply IH. reflexivity.
Qed.
