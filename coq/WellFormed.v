(* C20 (the part a model can carry): every modelled operation is a total function (Gallina) whose result is a
   well-formed encoding -- inside [0, 2^n) -- for EVERY operand, including operands that are not encodings at all. *)
From Coq Require Import ZArith QArith Qabs Lia Lqa Bool List.
From UV Require Import RoundSpec RoundNE PositMono PositMono2 PositVal PositPad PositSpec Num PositModel PositProps
  IntegerModel FixpntModel LnsModel IntProps.
Local Open Scope Z_scope.

Section WF.
Variable n : Z.
Hypothesis Hn : 2 <= n.

Lemma p2n : 2^n = 2 * 2^(n-1).
Proof. replace n with (Z.succ (n-1)) at 1 by lia. rewrite Z.pow_succ_r by lia. reflexivity. Qed.
Lemma p2n1 : 2^(n-1) = 2 * 2^(n-2).
Proof. replace (n-1) with (Z.succ (n-2)) at 1 by lia. rewrite Z.pow_succ_r by lia. reflexivity. Qed.
Lemma p2n2_pos : 0 < 2^(n-2). Proof. apply Z.pow_pos_nonneg; lia. Qed.

(* ---- posit ---- *)
Section Posit.
Variable es : Z.
Hypothesis Hes : 0 <= es.
Lemma pround_range x : 0 <= pround n es x < 2^n.
Proof.
  destruct (Qeq_dec x 0) as [E|E].
  - destruct (pround_std n es Hn Hes x) as (Z0 & _). rewrite (Z0 E). assert (0 < 2^n) by (apply Z.pow_pos_nonneg; lia). lia.
  - destruct (pround_nonzero_not_nar n es Hn Hes x E) as (_ & _ & R). lia.
Qed.
Lemma nar_range : 0 <= nar n < 2^n.
Proof. unfold nar. assert (P := p2n). assert (P1 := p2n1). assert (P2 := p2n2_pos). lia. Qed.
Lemma lift2_range f a b : 0 <= lift2 n es f a b < 2^n.
Proof. unfold lift2. destruct (pval n es a), (pval n es b); try apply nar_range. apply pround_range. Qed.
Lemma pdiv_range a b : 0 <= pdiv n es a b < 2^n.
Proof. unfold pdiv. destruct (pval n es b); [|apply nar_range]. destruct (Qeq_bool q 0); [apply nar_range|apply lift2_range]. Qed.
Lemma precip_range a : 0 <= precip n es a < 2^n.
Proof. unfold precip. destruct (pval n es a); [|apply nar_range]. destruct (Qeq_bool q 0); [apply nar_range|apply pround_range]. Qed.
Lemma pneg_range a : 0 <= pneg n a < 2^n.
Proof. unfold pneg. apply wrap_range. lia. Qed.
Lemma pabs_range a : 0 <= a < 2^n -> 0 <= pabs n a < 2^n.
Proof. intro H. unfold pabs. destruct (Z.ltb (nar n) a); [apply pneg_range|exact H]. Qed.
End Posit.

(* ---- integer / fixpnt ---- *)
Lemma land_range a b : 0 <= Z.land (wrap n a) (wrap n b) < 2^n.
Proof.
  assert (A := wrap_range n ltac:(lia) a). assert (B := wrap_range n ltac:(lia) b).
  split; [apply Z.land_nonneg; lia|].
  destruct (Z.eq_dec (Z.land (wrap n a) (wrap n b)) 0) as [->|NZ]; [lia|].
  apply Z.log2_lt_pow2; [assert (0 <= Z.land (wrap n a) (wrap n b)) by (apply Z.land_nonneg; lia); lia|].
  destruct (Z.eq_dec (wrap n a) 0) as [E|E]; [rewrite E, Z.land_0_l in NZ; contradiction|].
  eapply Z.le_lt_trans; [apply Z.log2_land; lia|].
  apply Z.min_lt_iff. left. apply Z.log2_lt_pow2; lia.
Qed.
Lemma lor_range a b : 0 <= Z.lor (wrap n a) (wrap n b) < 2^n.
Proof.
  assert (A := wrap_range n ltac:(lia) a). assert (B := wrap_range n ltac:(lia) b).
  split; [apply Z.lor_nonneg; lia|].
  destruct (Z.eq_dec (Z.lor (wrap n a) (wrap n b)) 0) as [->|NZ]; [lia|].
  apply Z.log2_lt_pow2; [assert (0 <= Z.lor (wrap n a) (wrap n b)) by (apply Z.lor_nonneg; lia); lia|].
  rewrite Z.log2_lor by lia.
  apply Z.max_lub_lt.
  - destruct (Z.eq_dec (wrap n a) 0) as [->|E]; [cbn; lia|apply Z.log2_lt_pow2; lia].
  - destruct (Z.eq_dec (wrap n b) 0) as [->|E]; [cbn; lia|apply Z.log2_lt_pow2; lia].
Qed.
Lemma lxor_range a b : 0 <= Z.lxor (wrap n a) (wrap n b) < 2^n.
Proof.
  assert (A := wrap_range n ltac:(lia) a). assert (B := wrap_range n ltac:(lia) b).
  split; [apply Z.lxor_nonneg; lia|].
  destruct (Z.eq_dec (Z.lxor (wrap n a) (wrap n b)) 0) as [->|NZ]; [lia|].
  apply Z.log2_lt_pow2; [assert (0 <= Z.lxor (wrap n a) (wrap n b)) by (apply Z.lxor_nonneg; lia); lia|].
  eapply Z.le_lt_trans; [apply Z.log2_lxor; lia|].
  apply Z.max_lub_lt.
  - destruct (Z.eq_dec (wrap n a) 0) as [->|E]; [cbn; lia|apply Z.log2_lt_pow2; lia].
  - destruct (Z.eq_dec (wrap n b) 0) as [->|E]; [cbn; lia|apply Z.log2_lt_pow2; lia].
Qed.

(* ---- lns ---- *)
Lemma l_encode_range c : 0 <= l_encode n c < 2^n.
Proof.
  assert (P := p2n). assert (P1 := p2n1). assert (P2 := p2n2_pos).
  destruct c as [| |s E]; cbn [l_encode]; try lia.
  assert (W := wrap_range (n-1) ltac:(lia) E). destruct s; lia.
Qed.
Lemma l_fit_range sat s E : 0 <= l_fit n sat s E < 2^n.
Proof.
  unfold l_fit. destruct sat.
  - destruct (Z.leb (l_emax n) E); [apply l_encode_range|]. destruct (Z.leb E (l_special n)); apply l_encode_range.
  - apply (l_encode_range (LVal s E)).
Qed.
Lemma l_mul_range sat a b : 0 <= l_mul n sat a b < 2^n.
Proof. unfold l_mul. destruct (l_decode n a), (l_decode n b); try apply l_encode_range; apply l_fit_range. Qed.
Lemma l_div_range sat a b : 0 <= l_div n sat a b < 2^n.
Proof. unfold l_div. destruct (l_decode n a), (l_decode n b); try apply l_encode_range; apply l_fit_range. Qed.
End WF.

(* ---- cfloat: the encoder maps every value class (magnitude >= 0) into the width, for every geometry and flag set ---- *)
From UV Require Import CfloatSpec CfloatModel CfloatProps.
Section WFcf.
Variable c : cfcfg.
Hypothesis Hes : 1 <= c_es c.
Hypothesis Hn : c_es c + 1 < c_n c.
Local Notation n := (c_n c).
Local Notation es := (c_es c).

Lemma cf_val_0 : (cf_val n es 0 == 0)%Q.
Proof.
  unfold cf_val, V. assert (0 < 2^(CfloatSpec.fb n es)) by (apply Z.pow_pos_nonneg; unfold CfloatSpec.fb; lia).
  rewrite Z.div_0_l, Zmod_0_l by lia. cbn. ring.
Qed.

Lemma cf_round_mag_range q : (0 <= q)%Q -> 0 <= cf_round_mag c q <= c_top c + 1.
Proof.
  intro Hq. assert (T : 1 <= c_top c) by (apply c_top_pos; assumption). assert (L : 0 <= c_lo c) by (apply c_lo_nonneg; assumption).
  destruct (Qeq_dec q 0) as [E|E].
  - unfold cf_round_mag. rewrite (proj2 (Qeq_bool_iff q 0) E). lia.
  - destruct (Qlt_le_dec q (cf_val n es (c_lo c))) as [F|F].
    + destruct (c_sub c) eqn:S.
      * exfalso. unfold c_lo in F. rewrite S in F. rewrite cf_val_0 in F. apply E. lra.
      * rewrite (cf_flush c q S F). lia.
    + destruct (Qlt_le_dec q (cf_val n es (c_top c + 1))) as [G|G].
      * destruct (cf_round_mag_nearest c Hes Hn q E F G) as (R & _). cbv zeta in R. lia.
      * unfold cf_round_mag. destruct (Qeq_bool q 0); [lia|].
        destruct (negb (c_sub c) && Qlt_bool q (cf_val (c_n c) (c_es c) (c_lo c))); [lia|].
        destruct (Qle_bool (cval_i c (c_top c + 1 - c_lo c)) q) eqn:O; [lia|].
        exfalso. assert (~ (cval_i c (c_top c + 1 - c_lo c) <= q)%Q) as NO by (intro X; apply Qle_bool_iff in X; congruence).
        apply NO. unfold cval_i. replace (c_lo c + (c_top c + 1 - c_lo c)) with (c_top c + 1) by lia. exact G.
Qed.

Lemma c_top_lt : c_top c < 2^(n-1) - 1.
Proof.
  assert (F : 1 <= cfb c) by (apply cfb_pos; assumption). assert (P : 2^(c_n c - 1) = 2^(c_es c) * 2^(cfb c)) by (apply pow_split_n; assumption).
  assert (2 <= 2^(cfb c)) by (change 2 with (2^1) at 1; apply Z.pow_le_mono_r; lia).
  assert (2 <= 2^(c_es c)) by (change 2 with (2^1) at 1; apply Z.pow_le_mono_r; lia).
  unfold c_top, c_eall. destruct (c_sup c), (c_sat c); nia.
Qed.

Definition num_wf (x : num) : Prop := match x with Fin _ q => (0 <= q)%Q | _ => True end.

Theorem cf_encode_range x : num_wf x -> 0 <= cf_encode c x < 2^n.
Proof.
  intro W. assert (T := c_top_lt). assert (T1 : 1 <= c_top c) by (apply c_top_pos; assumption).
  assert (P : 2^n = 2 * 2^(n-1)) by (replace n with (Z.succ (n-1)) at 1 by lia; rewrite Z.pow_succ_r by lia; reflexivity).
  assert (S : forall s, signbit c s = 0 \/ signbit c s = 2^(n-1)) by (intro s; unfold signbit; destruct s; auto).
  destruct x as [|s|s q]; cbn [cf_encode].
  - unfold c_nanm. lia.
  - unfold c_infm. destruct (S s); lia.
  - cbn in W. assert (R := cf_round_mag_range q W). unfold c_infm.
    destruct (Z.ltb_spec (c_top c) (cf_round_mag c q)); [destruct (c_sat c)|]; destruct (S s); lia.
Qed.
End WFcf.
