(* Soundness of the certified enclosures used by the lns acceptance predicates (C09 add/sub, C03 conversions):
   the pair returned for the fractional part j/2^r of an exponent encloses 2^(j/2^r), stated without real numbers:
        lo^(2^r) <= 2^j * (2^PREC)^(2^r) <= hi^(2^r)            (lo, hi are integers scaled by 2^PREC)
   i.e. lo / 2^PREC <= 2^(j/2^r) <= hi / 2^PREC.  Every r >= 0, every 0 <= j < 2^r. *)
From Coq Require Import ZArith Lia List Bool.
From UV Require Import LnsModel.
Import ListNotations.
Local Open Scope Z_scope.

Lemma PREC_pos : 0 < PREC. Proof. reflexivity. Qed.
Lemma pow2k_pos k : 0 <= k -> 0 < 2^k. Proof. intro. apply Z.pow_pos_nonneg; lia. Qed.

(* invariants of the k-th root pair: encloses 2^(1/2^k), scaled by 2^PREC *)
Definition lo_inv (k a : Z) : Prop := 0 <= a /\ a ^ (2^k) <= 2 ^ (1 + PREC * 2^k).
Definition hi_inv (k b : Z) : Prop := 0 <= b /\ 2 ^ (1 + PREC * 2^k) <= b ^ (2^k).

Lemma pow_double x k : 0 <= k -> x ^ (2^(k+1)) = (x * x) ^ (2^k).
Proof.
  intro Hk. rewrite Z.pow_add_r by lia. change (2^1) with 2. rewrite Z.mul_comm.
  rewrite Z.pow_mul_r by (try lia; apply Z.lt_le_incl, pow2k_pos; lia).
  f_equal. rewrite Z.pow_2_r. reflexivity.
Qed.

Lemma target_double k : 0 <= k -> 2 ^ (1 + PREC * 2^(k+1)) = 2 ^ (1 + PREC * 2^k) * (2^PREC) ^ (2^k).
Proof.
  intro Hk. assert (P := pow2k_pos k Hk). assert (PP := PREC_pos).
  rewrite <- Z.pow_mul_r by lia. rewrite <- Z.pow_add_r by nia. f_equal.
  rewrite Z.pow_add_r by lia. change (2^1) with 2. lia.
Qed.

Lemma sqrt_lo k a : 0 <= k -> lo_inv k a -> lo_inv (k+1) (Z.sqrt (a * 2^PREC)).
Proof.
  intros Hk (Ha & Hinv). assert (PP : 0 < 2^PREC) by (apply pow2k_pos; apply Z.lt_le_incl, PREC_pos).
  assert (Hx : 0 <= a * 2^PREC) by nia.
  destruct (Z.sqrt_spec (a * 2^PREC) Hx) as (S1 & _). assert (S0 := Z.sqrt_nonneg (a * 2^PREC)).
  set (s := Z.sqrt (a * 2^PREC)) in *. split; [exact S0|].
  rewrite pow_double by exact Hk. rewrite target_double by exact Hk.
  assert (E2 : 0 <= 2^k) by (apply Z.lt_le_incl, pow2k_pos; exact Hk).
  apply Z.le_trans with ((a * 2^PREC) ^ (2^k)).
  - apply Z.pow_le_mono_l. nia.
  - rewrite Z.pow_mul_l. apply Z.mul_le_mono_nonneg_r; [apply Z.pow_nonneg; lia|exact Hinv].
Qed.

Lemma sqrt_hi k b : 0 <= k -> hi_inv k b -> hi_inv (k+1) (Z.sqrt (b * 2^PREC) + 1).
Proof.
  intros Hk (Hb & Hinv). assert (PP : 0 < 2^PREC) by (apply pow2k_pos; apply Z.lt_le_incl, PREC_pos).
  assert (Hx : 0 <= b * 2^PREC) by nia.
  destruct (Z.sqrt_spec (b * 2^PREC) Hx) as (_ & S2). assert (S0 := Z.sqrt_nonneg (b * 2^PREC)).
  set (s := Z.sqrt (b * 2^PREC)) in *. split; [lia|].
  rewrite pow_double by exact Hk. rewrite target_double by exact Hk.
  assert (E2 : 0 <= 2^k) by (apply Z.lt_le_incl, pow2k_pos; exact Hk).
  apply Z.le_trans with ((b * 2^PREC) ^ (2^k)).
  - rewrite Z.pow_mul_l. apply Z.mul_le_mono_nonneg_r; [apply Z.pow_nonneg; lia|exact Hinv].
  - apply Z.pow_le_mono_l. unfold Z.succ in S2. nia.
Qed.

Fixpoint roots_ok (k : Z) (l : list (Z * Z)) : Prop :=
  match l with
  | [] => True
  | rt :: rest => lo_inv k (fst rt) /\ hi_inv k (snd rt) /\ roots_ok (k + 1) rest
  end.

Lemma mk_roots_ok : forall (n : nat) k root, 0 <= k -> lo_inv k (fst root) -> hi_inv k (snd root) ->
  roots_ok (k + 1) (mk_roots n root) /\ length (mk_roots n root) = n.
Proof.
  induction n as [|n IH]; intros k root Hk L H; cbn [mk_roots roots_ok length]; [split; [exact I|reflexivity]|].
  assert (L' := sqrt_lo k (fst root) Hk L). assert (H' := sqrt_hi k (snd root) Hk H).
  destruct (IH (k + 1) (sqrt_enc root) ltac:(lia) L' H') as (R & Len).
  split; [|rewrite Len; reflexivity]. split; [exact L'|]. split; [exact H'|exact R].
Qed.

Lemma root0_ok : lo_inv 0 (2 * 2^PREC) /\ hi_inv 0 (2 * 2^PREC).
Proof. unfold lo_inv, hi_inv. change (2^0) with 1. rewrite !Z.pow_1_r, Z.mul_1_r. rewrite Z.pow_add_r by (try lia; apply Z.lt_le_incl, PREC_pos). change (2^1) with 2. assert (0 < 2^PREC) by (apply pow2k_pos; apply Z.lt_le_incl, PREC_pos). lia. Qed.

(* accumulator invariant for r fraction bits: encloses 2^(J/2^r) *)
Section Frac.
Variable r : Z.
Hypothesis Hr : 0 <= r.
Definition acc_lo (J a : Z) : Prop := 0 <= a /\ a ^ (2^r) <= 2 ^ (J + PREC * 2^r).
Definition acc_hi (J b : Z) : Prop := 0 <= b /\ 2 ^ (J + PREC * 2^r) <= b ^ (2^r).

(* the k-th root raised to 2^r *)
Lemma root_pow_lo k a : 0 <= k <= r -> lo_inv k a -> a ^ (2^r) <= 2 ^ (2^(r-k) + PREC * 2^r).
Proof.
  intros Hk (Ha & Hinv).
  assert (E : 2^r = 2^k * 2^(r-k)) by (rewrite <- Z.pow_add_r by lia; f_equal; lia).
  assert (P1 := pow2k_pos k ltac:(lia)). assert (P2 := pow2k_pos (r-k) ltac:(lia)).
  rewrite E at 1. rewrite Z.pow_mul_r by lia.
  apply Z.le_trans with ((2 ^ (1 + PREC * 2^k)) ^ (2^(r-k))).
  - apply Z.pow_le_mono_l. split; [apply Z.pow_nonneg; lia|exact Hinv].
  - rewrite <- Z.pow_mul_r by (assert (PP := PREC_pos); nia). apply Z.pow_le_mono_r; [lia|]. rewrite E. nia.
Qed.
Lemma root_pow_hi k b : 0 <= k <= r -> hi_inv k b -> 2 ^ (2^(r-k) + PREC * 2^r) <= b ^ (2^r).
Proof.
  intros Hk (Hb & Hinv).
  assert (E : 2^r = 2^k * 2^(r-k)) by (rewrite <- Z.pow_add_r by lia; f_equal; lia).
  assert (P1 := pow2k_pos k ltac:(lia)). assert (P2 := pow2k_pos (r-k) ltac:(lia)).
  rewrite E at 2. rewrite Z.pow_mul_r by lia.
  apply Z.le_trans with ((2 ^ (1 + PREC * 2^k)) ^ (2^(r-k))).
  - rewrite <- Z.pow_mul_r by (assert (PP := PREC_pos); nia). apply Z.pow_le_mono_r; [lia|]. rewrite E. nia.
  - apply Z.pow_le_mono_l. split; [apply Z.pow_nonneg; lia|exact Hinv].
Qed.

Lemma mul_lo J d a c : 0 <= J -> 0 <= d -> acc_lo J a -> 0 <= c -> c ^ (2^r) <= 2 ^ (d + PREC * 2^r) ->
  acc_lo (J + d) (a * c / 2^PREC).
Proof.
  intros HJ Hd (Ha & Ia) Hc Ic. assert (PP : 0 < 2^PREC) by (apply pow2k_pos; apply Z.lt_le_incl, PREC_pos).
  assert (R := pow2k_pos r Hr). assert (PR := PREC_pos).
  set (q := a * c / 2^PREC). assert (Hq : 0 <= q) by (apply Z.div_pos; nia).
  assert (Hqm : q * 2^PREC <= a * c) by (unfold q; rewrite Z.mul_comm; apply Z.mul_div_le; lia).
  split; [exact Hq|].
  (* q^(2^r) * (2^PREC)^(2^r) <= (a c)^(2^r) <= 2^(J + P 2^r) 2^(d + P 2^r) *)
  assert (T : q ^ (2^r) * (2^PREC) ^ (2^r) <= 2 ^ (J + PREC * 2^r) * 2 ^ (d + PREC * 2^r)).
  { rewrite <- Z.pow_mul_l. apply Z.le_trans with ((a * c) ^ (2^r)).
    - apply Z.pow_le_mono_l. nia.
    - rewrite Z.pow_mul_l. apply Z.mul_le_mono_nonneg; try assumption; apply Z.pow_nonneg; lia. }
  rewrite <- Z.pow_mul_r in T by lia.
  rewrite <- Z.pow_add_r in T by nia.
  replace (J + PREC * 2^r + (d + PREC * 2^r)) with ((J + d + PREC * 2^r) + PREC * 2^r) in T by ring.
  rewrite Z.pow_add_r in T by nia.
  apply Z.mul_le_mono_pos_r in T; [exact T|apply Z.pow_pos_nonneg; nia].
Qed.

Lemma mul_hi J d b c : 0 <= J -> 0 <= d -> acc_hi J b -> 0 <= c -> 2 ^ (d + PREC * 2^r) <= c ^ (2^r) ->
  acc_hi (J + d) (b * c / 2^PREC + 1).
Proof.
  intros HJ Hd (Hb & Ib) Hc Ic. assert (PP : 0 < 2^PREC) by (apply pow2k_pos; apply Z.lt_le_incl, PREC_pos).
  assert (R := pow2k_pos r Hr). assert (PR := PREC_pos).
  set (q := b * c / 2^PREC + 1). assert (Hq : 0 <= q) by (unfold q; assert (0 <= b * c / 2^PREC) by (apply Z.div_pos; nia); lia).
  assert (Hqm : b * c <= q * 2^PREC).
  { unfold q. assert (M := Z.mod_pos_bound (b * c) (2^PREC) PP). assert (D := Z.div_mod (b * c) (2^PREC) ltac:(lia)). nia. }
  split; [exact Hq|].
  assert (T : 2 ^ (J + PREC * 2^r) * 2 ^ (d + PREC * 2^r) <= q ^ (2^r) * (2^PREC) ^ (2^r)).
  { rewrite <- Z.pow_mul_l. apply Z.le_trans with ((b * c) ^ (2^r)).
    - rewrite Z.pow_mul_l. apply Z.mul_le_mono_nonneg; try assumption; apply Z.pow_nonneg; lia.
    - apply Z.pow_le_mono_l. nia. }
  rewrite <- Z.pow_mul_r in T by lia.
  rewrite <- Z.pow_add_r in T by nia.
  replace (J + PREC * 2^r + (d + PREC * 2^r)) with ((J + d + PREC * 2^r) + PREC * 2^r) in T by ring.
  rewrite Z.pow_add_r in T by nia.
  apply Z.mul_le_mono_pos_r in T; [exact T|apply Z.pow_pos_nonneg; nia].
Qed.

(* the high part of j above bit position b *)
Definition hipart (j b : Z) : Z := (j / 2^b) * 2^b.
Lemma hipart_step j b : 0 <= b -> hipart j b = hipart j (b + 1) + (if Z.testbit j b then 2^b else 0).
Proof.
  intro Hb. unfold hipart. assert (P := pow2k_pos b Hb).
  rewrite Z.pow_add_r by lia. change (2^1) with 2.
  rewrite <- Z.div_div by lia.
  rewrite Z.testbit_odd, Z.shiftr_div_pow2 by lia.
  set (t := j / 2^b). assert (D := Z.div_mod t 2 ltac:(lia)).
  rewrite Zmod_odd in D. destruct (Z.odd t); lia.
Qed.

Lemma frac_enc_inv j : forall roots bitpos acc,
  Z.of_nat (length roots) = bitpos + 1 -> bitpos < r -> roots_ok (r - bitpos) roots -> 0 <= j ->
  acc_lo (hipart j (bitpos + 1)) (fst acc) -> acc_hi (hipart j (bitpos + 1)) (snd acc) ->
  acc_lo j (fst (frac_enc roots j bitpos acc)) /\ acc_hi j (snd (frac_enc roots j bitpos acc)).
Proof.
  induction roots as [|rt rest IH]; intros bitpos acc Hlen Hb Rok Hj Lo Hi.
  - cbn [frac_enc]. cbn [length] in Hlen. assert (bitpos = -1) by lia. subst bitpos.
    change (-1 + 1) with 0 in *. unfold hipart in *. change (2^0) with 1 in *. rewrite Z.div_1_r, Z.mul_1_r in *. split; assumption.
  - cbn [frac_enc]. cbn [length] in Hlen. rewrite Nat2Z.inj_succ in Hlen.
    destruct Rok as (RL & RH & Rrest).
    assert (Hb0 : 0 <= bitpos) by lia.
    assert (Hh : 0 <= hipart j (bitpos + 1)).
    { unfold hipart. apply Z.mul_nonneg_nonneg; [apply Z.div_pos; [lia|apply pow2k_pos; lia]|apply Z.lt_le_incl, pow2k_pos; lia]. }
    apply IH.
    + lia.
    + lia.
    + replace (r - (bitpos - 1)) with (r - bitpos + 1) by lia. exact Rrest.
    + exact Hj.
    + replace (bitpos - 1 + 1) with bitpos by lia. rewrite (hipart_step j bitpos Hb0).
      destruct (Z.testbit j bitpos).
      * cbn [mul_enc fst]. apply mul_lo; try assumption.
        -- apply Z.lt_le_incl, pow2k_pos; lia.
        -- apply RL.
        -- replace bitpos with (r - (r - bitpos)) at 1 by lia. apply root_pow_lo; [lia|exact RL].
      * rewrite Z.add_0_r. exact Lo.
    + replace (bitpos - 1 + 1) with bitpos by lia. rewrite (hipart_step j bitpos Hb0).
      destruct (Z.testbit j bitpos).
      * cbn [mul_enc snd]. apply mul_hi; try assumption.
        -- apply Z.lt_le_incl, pow2k_pos; lia.
        -- apply RH.
        -- replace bitpos with (r - (r - bitpos)) at 1 by lia. apply root_pow_hi; [lia|exact RH].
      * rewrite Z.add_0_r. exact Hi.
Qed.

Theorem frac_enclosure j : 0 <= j < 2^r ->
  let e := frac_enc (lns_roots r) j (r - 1) (2^PREC, 2^PREC) in
  (0 <= fst e /\ (fst e) ^ (2^r) <= 2 ^ (j + PREC * 2^r)) /\ (0 <= snd e /\ 2 ^ (j + PREC * 2^r) <= (snd e) ^ (2^r)).
Proof.
  intros Hj. cbv zeta. unfold lns_roots.
  destruct root0_ok as (L0 & H0).
  destruct (mk_roots_ok (Z.to_nat r) 0 (2 * 2^PREC, 2 * 2^PREC) ltac:(lia) L0 H0) as (Rok & Len).
  assert (PP : 0 < 2^PREC) by (apply pow2k_pos; apply Z.lt_le_incl, PREC_pos).
  assert (Hh : hipart j (r - 1 + 1) = 0).
  { unfold hipart. replace (r - 1 + 1) with r by lia. rewrite Z.div_small by lia. reflexivity. }
  assert (EP : (2^PREC) ^ (2^r) = 2 ^ (PREC * 2^r)).
  { rewrite <- Z.pow_mul_r; [reflexivity|apply Z.lt_le_incl, PREC_pos|apply Z.lt_le_incl, pow2k_pos; lia]. }
  apply (frac_enc_inv j (mk_roots (Z.to_nat r) (2 * 2^PREC, 2 * 2^PREC)) (r - 1) (2^PREC, 2^PREC)).
  - rewrite Len, Z2Nat.id by lia. lia.
  - lia.
  - replace (r - (r - 1)) with (0 + 1) by lia. exact Rok.
  - lia.
  - rewrite Hh. cbn [fst]. split; [lia|]. rewrite Z.add_0_l, EP. lia.
  - rewrite Hh. cbn [snd]. split; [lia|]. rewrite Z.add_0_l, EP. lia.
Qed.
End Frac.
