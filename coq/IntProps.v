(* Theorems about two's-complement words (Num.wrap / Num.sgn), the fixpnt model and the integer model.
   All are for every width n >= 1 and every operand. *)
From Coq Require Import ZArith QArith Lia Bool List.
From UV Require Import Num Verdict FixpntModel IntegerModel.
Local Open Scope Z_scope.
Ltac Zify.zify_post_hook ::= Z.div_mod_to_equations.

Lemma pow2_gt0 k : 0 <= k -> 0 < 2^k.
Proof. intro. apply Z.pow_pos_nonneg; lia. Qed.
Lemma pow2_S n : 1 <= n -> 2^n = 2 * 2^(n-1).
Proof. intro H. replace n with (Z.succ (n-1)) at 1 by lia. rewrite Z.pow_succ_r by lia. reflexivity. Qed.

Section W.
Variable n : Z.
Hypothesis Hn : 1 <= n.

Lemma wrap_range x : 0 <= wrap n x < 2^n.
Proof. unfold wrap. apply Z.mod_pos_bound. apply pow2_gt0; lia. Qed.

Lemma sgn_range x : - 2^(n-1) <= sgn n x < 2^(n-1).
Proof.
  unfold sgn. assert (H := wrap_range x). assert (P := pow2_S n Hn).
  destruct (Z.ltb_spec (wrap n x) (2^(n-1))); lia.
Qed.

(* sgn is the representative of x modulo 2^n in the signed range *)
Lemma sgn_congr x : exists k, sgn n x = x + k * 2^n.
Proof.
  unfold sgn, wrap. assert (P := pow2_gt0 n ltac:(lia)).
  destruct (Z.ltb_spec (x mod 2^n) (2^(n-1))).
  - exists (- (x / 2^n)). rewrite Z.mod_eq by lia. lia.
  - exists (- (x / 2^n) - 1). rewrite Z.mod_eq by lia. lia.
Qed.

Lemma sgn_id x : - 2^(n-1) <= x < 2^(n-1) -> sgn n x = x.
Proof.
  intro Hx. destruct (sgn_congr x) as [k Hk]. assert (R := sgn_range x). assert (P := pow2_S n Hn).
  assert (P0 := pow2_gt0 (n-1) ltac:(lia)).
  rewrite P in Hk. set (h := 2^(n-1)) in *. clearbody h.
  assert (k = 0).
  { destruct (Z.lt_trichotomy k 0) as [Hlt|[Heq|Hgt]]; [|assumption|].
    - assert (k * h <= - h) by nia. lia.
    - assert (h <= k * h) by nia. lia. }
  subst k. lia.
Qed.

Lemma sgn_wrap x : sgn n (wrap n x) = sgn n x.
Proof. unfold sgn, wrap. rewrite Z.mod_mod by (assert (P := pow2_gt0 n ltac:(lia)); lia). reflexivity. Qed.

Lemma wrap_sgn x : wrap n (sgn n x) = wrap n x.
Proof.
  destruct (sgn_congr x) as [k Hk]. rewrite Hk. unfold wrap. apply Z.mod_add.
  assert (P := pow2_gt0 n ltac:(lia)). lia.
Qed.

Lemma wrap_id x : 0 <= x < 2^n -> wrap n x = x.
Proof. intro. unfold wrap. apply Z.mod_small. assumption. Qed.

(* congruence: results depend only on the operands modulo 2^n *)
Lemma wrap_add a b : wrap n (sgn n a + sgn n b) = wrap n (a + b).
Proof.
  destruct (sgn_congr a) as [k Hk]. destruct (sgn_congr b) as [j Hj]. rewrite Hk, Hj. unfold wrap.
  replace (a + k * 2^n + (b + j * 2^n)) with (a + b + (k + j) * 2^n) by ring.
  apply Z.mod_add. assert (P := pow2_gt0 n ltac:(lia)). lia.
Qed.
Lemma wrap_sub a b : wrap n (sgn n a - sgn n b) = wrap n (a - b).
Proof.
  destruct (sgn_congr a) as [k Hk]. destruct (sgn_congr b) as [j Hj]. rewrite Hk, Hj. unfold wrap.
  replace (a + k * 2^n - (b + j * 2^n)) with (a - b + (k - j) * 2^n) by ring.
  apply Z.mod_add. assert (P := pow2_gt0 n ltac:(lia)). lia.
Qed.
Lemma wrap_mul a b : wrap n (sgn n a * sgn n b) = wrap n (a * b).
Proof.
  destruct (sgn_congr a) as [k Hk]. destruct (sgn_congr b) as [j Hj]. rewrite Hk, Hj. unfold wrap.
  replace ((a + k * 2^n) * (b + j * 2^n)) with (a * b + (a * j + k * b + k * j * 2^n) * 2^n) by ring.
  apply Z.mod_add. assert (P := pow2_gt0 n ltac:(lia)). lia.
Qed.
Lemma wrap_wrap_add a b : wrap n (wrap n a + b) = wrap n (a + b).
Proof. unfold wrap. rewrite Zplus_mod_idemp_l. reflexivity. Qed.
Lemma wrap_wrap_mul a b : wrap n (wrap n a * b) = wrap n (a * b).
Proof. unfold wrap. rewrite Zmult_mod_idemp_l. reflexivity. Qed.

(* ---------------- integer<n>: the ring Z/2^n ------------------------------ *)
Theorem int_add_is_mod a b : i_add n a b = (a + b) mod 2^n.
Proof. unfold i_add. rewrite wrap_add. reflexivity. Qed.
Theorem int_sub_is_mod a b : i_sub n a b = (a - b) mod 2^n.
Proof. unfold i_sub. rewrite wrap_sub. reflexivity. Qed.
Theorem int_mul_is_mod a b : i_mul n a b = (a * b) mod 2^n.
Proof. unfold i_mul. rewrite wrap_mul. reflexivity. Qed.
Theorem int_neg_is_mod a : i_neg n a = (- a) mod 2^n.
Proof. unfold i_neg. replace (- sgn n a) with (sgn n 0 - sgn n a) by (rewrite (sgn_id 0); [lia|assert (P := pow2_gt0 (n-1) ltac:(lia)); lia]).
  rewrite wrap_sub. reflexivity. Qed.

Theorem int_add_comm a b : i_add n a b = i_add n b a.
Proof. rewrite !int_add_is_mod. f_equal. lia. Qed.
Theorem int_add_assoc a b c : i_add n (i_add n a b) c = i_add n a (i_add n b c).
Proof.
  rewrite !int_add_is_mod. rewrite Zplus_mod_idemp_l, Zplus_mod_idemp_r. f_equal. lia.
Qed.
Theorem int_mul_comm a b : i_mul n a b = i_mul n b a.
Proof. rewrite !int_mul_is_mod. f_equal. lia. Qed.
Theorem int_mul_assoc a b c : i_mul n (i_mul n a b) c = i_mul n a (i_mul n b c).
Proof. rewrite !int_mul_is_mod. rewrite Zmult_mod_idemp_l, Zmult_mod_idemp_r. f_equal. lia. Qed.
Theorem int_distr a b c : i_mul n a (i_add n b c) = i_add n (i_mul n a b) (i_mul n a c).
Proof.
  rewrite !int_add_is_mod, !int_mul_is_mod. rewrite Zmult_mod_idemp_r. rewrite <- Zplus_mod. f_equal. lia.
Qed.
Theorem int_add_neg a : i_add n a (i_neg n a) = 0.
Proof. rewrite int_add_is_mod, int_neg_is_mod. rewrite Zplus_mod_idemp_r. replace (a + - a) with 0 by lia. apply Z.mod_0_l.
  assert (P := pow2_gt0 n ltac:(lia)). lia. Qed.

(* division truncates toward zero; a = (a/b)*b + a%b, |a%b| < |b|; and the same identity on the wrapped results *)
Theorem int_div_rem_exact a b : sgn n b <> 0 ->
  sgn n a = Z.quot (sgn n a) (sgn n b) * sgn n b + Z.rem (sgn n a) (sgn n b) /\
  Z.abs (Z.rem (sgn n a) (sgn n b)) < Z.abs (sgn n b) /\
  (0 <= sgn n a -> 0 <= Z.rem (sgn n a) (sgn n b)) /\ (sgn n a <= 0 -> Z.rem (sgn n a) (sgn n b) <= 0).
Proof.
  intro Hb. split; [|split; [|split]].
  - rewrite Z.mul_comm. apply Z.quot_rem'.
  - apply Z.rem_bound_abs. assumption.
  - intro. apply Z.rem_nonneg; assumption.
  - intro. apply Z.rem_nonpos; assumption.
Qed.
Theorem int_div_rem_identity a b : sgn n b <> 0 ->
  i_add n (i_mul n (i_div n a b) b) (i_rem n a b) = wrap n a.
Proof.
  intro Hb. unfold i_add, i_mul, i_div, i_rem.
  rewrite !sgn_wrap. rewrite wrap_add.
  destruct (sgn_congr (Z.quot (sgn n a) (sgn n b))) as [k Hk]. rewrite Hk.
  replace ((Z.quot (sgn n a) (sgn n b) + k * 2^n) * sgn n b + Z.rem (sgn n a) (sgn n b))
    with (Z.quot (sgn n a) (sgn n b) * sgn n b + Z.rem (sgn n a) (sgn n b) + (k * sgn n b) * 2^n) by ring.
  unfold wrap at 1. rewrite Z.mod_add by (assert (P := pow2_gt0 n ltac:(lia)); lia).
  rewrite Z.mul_comm. rewrite <- Z.quot_rem' . apply wrap_sgn.
Qed.

(* shifts: left shift = multiplication by 2^k modulo 2^n; right shift = floor division (sign filling) *)
Theorem int_shl_is_mul a k : 0 <= k -> i_shl n a k = (a * 2^k) mod 2^n.
Proof.
  intro Hk. unfold i_shl. destruct (Z.leb_spec 0 k); [|lia].
  destruct (sgn_congr a) as [j Hj]. rewrite Hj. unfold wrap.
  replace ((a + j * 2^n) * 2^k) with (a * 2^k + (j * 2^k) * 2^n) by ring.
  apply Z.mod_add. assert (P := pow2_gt0 n ltac:(lia)). lia.
Qed.
Theorem int_shr_is_floor a k : 0 <= k -> sgn n (i_shr n a k) = sgn n a / 2^k.
Proof.
  intro Hk. unfold i_shr. destruct (Z.leb_spec 0 k); [|lia].
  rewrite sgn_wrap. apply sgn_id.
  assert (R := sgn_range a). assert (P := pow2_gt0 k Hk). assert (P1 := pow2_gt0 (n-1) ltac:(lia)).
  split.
  - apply Z.div_le_lower_bound; [lia|]. nia.
  - apply Z.div_lt_upper_bound; [lia|]. nia.
Qed.
(* shifting a negative value right by n or more gives -1, a non-negative one 0 *)
Theorem int_shr_saturates a k : n <= k -> sgn n (i_shr n a k) = if Z.ltb (sgn n a) 0 then -1 else 0.
Proof.
  intro Hk. rewrite int_shr_is_floor by lia.
  assert (R := sgn_range a). assert (P1 := pow2_gt0 (n-1) ltac:(lia)).
  assert (2^(n-1) < 2^k) by (apply Z.pow_lt_mono_r; lia).
  destruct (Z.ltb_spec (sgn n a) 0).
  - symmetry. apply Z.div_unique with (r := sgn n a + 2^k); lia.
  - apply Z.div_small. lia.
Qed.
End W.

(* widening preserves the value (sign extension), narrowing keeps it when it fits *)
Theorem int_widen n m a : 1 <= n -> n <= m -> sgn m (i_conv n m a) = sgn n a.
Proof.
  intros Hn Hm. unfold i_conv. rewrite (sgn_wrap m) by lia. apply sgn_id; [lia|].
  assert (R := sgn_range n Hn a).
  assert (2^(n-1) <= 2^(m-1)) by (apply Z.pow_le_mono_r; lia). lia.
Qed.
Theorem int_narrow_fits n m a : 1 <= m -> - 2^(m-1) <= sgn n a < 2^(m-1) -> sgn m (i_conv n m a) = sgn n a.
Proof. intros Hm Hfit. unfold i_conv. rewrite (sgn_wrap m) by lia. apply sgn_id; assumption. Qed.

(* ---------------- fixpnt ---------------------------------------------------- *)
(* round-to-nearest-even of num/den *)
Theorem rne_div_spec num den : 0 < den ->
  let q := rne_div num den in
  2 * Z.abs (q * den - num) <= den /\ (2 * Z.abs (q * den - num) = den -> Z.even q = true).
Proof.
  intro Hd. cbv zeta. unfold rne_div.
  assert (E := Z.div_mod num den ltac:(lia)). assert (B := Z.mod_pos_bound num den Hd).
  set (q := num / den) in *. set (r := num mod den) in *.
  destruct (Z.compare_spec (2 * r) den) as [C|C|C].
  - destruct (Z.even q) eqn:Ev.
    + split; [nia|]. intros _. exact Ev.
    + split; [nia|]. intros _. rewrite Z.even_add. rewrite Ev. reflexivity.
  - split; [nia|]. intro H. exfalso. nia.
  - split; [nia|]. intro H. exfalso. nia.
Qed.
Theorem rne_div_exact num den : 0 < den -> num mod den = 0 -> rne_div num den * den = num.
Proof.
  intros Hd Hm. unfold rne_div. rewrite Hm. assert (E := Z.div_mod num den ltac:(lia)). rewrite Hm in E.
  destruct (Z.compare_spec (2 * 0) den); try lia.
Qed.

Section F.
Variable n : Z.
Hypothesis Hn : 1 <= n.

Lemma clamp_range x : fx_min n <= clamp n x <= fx_max n.
Proof. unfold clamp, fx_min, fx_max. assert (P := pow2_gt0 (n-1) ltac:(lia)). lia. Qed.
Lemma clamp_id x : fx_min n <= x <= fx_max n -> clamp n x = x.
Proof. unfold clamp. lia. Qed.

(* Saturate never wraps: the result is the exact value when it fits, the nearer bound otherwise *)
Theorem fx_fit_saturate x :
  sgn n (fx_fit n true x) = clamp n x /\
  (fx_min n <= x <= fx_max n -> sgn n (fx_fit n true x) = x) /\
  (fx_max n < x -> sgn n (fx_fit n true x) = fx_max n) /\
  (x < fx_min n -> sgn n (fx_fit n true x) = fx_min n).
Proof.
  assert (R := clamp_range x). unfold fx_min, fx_max in *.
  assert (E : sgn n (fx_fit n true x) = clamp n x).
  { unfold fx_fit. rewrite sgn_wrap by assumption. apply sgn_id; [assumption|]. lia. }
  rewrite E. unfold clamp, fx_min, fx_max. repeat split; lia.
Qed.
(* Modulo: the result is the exact value reduced modulo 2^n *)
Theorem fx_fit_modulo x : fx_fit n false x = x mod 2^n.
Proof. reflexivity. Qed.

Theorem fx_add_modulo a b : fx_add n false a b = (a + b) mod 2^n.
Proof. unfold fx_add, fx_fit. apply wrap_add. assumption. Qed.
Theorem fx_sub_modulo a b : fx_sub n false a b = (a - b) mod 2^n.
Proof. unfold fx_sub, fx_fit. apply wrap_sub. assumption. Qed.
Theorem fx_add_saturate a b : sgn n (fx_add n true a b) = clamp n (sgn n a + sgn n b).
Proof. unfold fx_add. apply fx_fit_saturate. Qed.
Theorem fx_sub_saturate a b : sgn n (fx_sub n true a b) = clamp n (sgn n a - sgn n b).
Proof. unfold fx_sub. apply fx_fit_saturate. Qed.

(* multiplication: the exact product a*b*2^-2r rounded to the nearest multiple of 2^-r, ties to even,
   then the range rule *)
Theorem fx_mul_rounds r sat a b : 0 <= r ->
  exists q, fx_mul n r sat a b = fx_fit n sat q /\
    2 * Z.abs (q * 2^r - sgn n a * sgn n b) <= 2^r /\
    (2 * Z.abs (q * 2^r - sgn n a * sgn n b) = 2^r -> Z.even q = true).
Proof.
  intro Hr. exists (rne_div (sgn n a * sgn n b) (2^r)). split; [reflexivity|].
  apply rne_div_spec. apply pow2_gt0. assumption.
Qed.
(* division: the exact quotient (a/b)*2^r rounded to the nearest integer, ties to even *)
Theorem fx_div_rounds r sat a b : 0 <= r -> sgn n b <> 0 ->
  exists q, fx_div n r sat a b = fx_fit n sat q /\
    2 * Z.abs (q * sgn n b - sgn n a * 2^r) <= Z.abs (sgn n b) /\
    (2 * Z.abs (q * sgn n b - sgn n a * 2^r) = Z.abs (sgn n b) -> Z.even q = true).
Proof.
  intros Hr Hb. exists (rne_div (sgn n a * 2^r * Z.sgn (sgn n b)) (Z.abs (sgn n b))). split; [reflexivity|].
  destruct (rne_div_spec (sgn n a * 2^r * Z.sgn (sgn n b)) (Z.abs (sgn n b)) ltac:(lia)) as [H1 H2].
  set (q := rne_div _ _) in *.
  assert (E : Z.abs (q * sgn n b - sgn n a * 2^r) = Z.abs (q * Z.abs (sgn n b) - sgn n a * 2^r * Z.sgn (sgn n b))).
  { destruct (Z.lt_trichotomy (sgn n b) 0) as [Hlt|[Heq|Hgt]]; [|lia|].
    - rewrite (Z.abs_neq (sgn n b)) by lia. rewrite (Z.sgn_neg (sgn n b)) by lia.
      replace (q * - sgn n b - sgn n a * 2^r * -1) with (- (q * sgn n b - sgn n a * 2^r)) by ring. symmetry. apply Z.abs_opp.
    - rewrite (Z.abs_eq (sgn n b)) by lia. rewrite (Z.sgn_pos (sgn n b)) by lia. f_equal. ring. }
  rewrite E. split; assumption.
Qed.

(* order and stepping *)
Theorem fx_lt_is_value_order r a b : 0 <= r -> fx_lt n a b = true <-> (fx_val n r a < fx_val n r b)%Q.
Proof.
  intro Hr. unfold fx_lt, fx_val. rewrite Z.ltb_lt.
  assert (P := pow2_gt0 r Hr).
  unfold Qlt, Qdiv, Qmult, Qinv. cbn [Qnum Qden inject_Z].
  destruct (2^r) eqn:E; try lia. cbn. nia.
Qed.
Theorem fx_roundtrip r sat a : 0 <= r -> 0 <= a < 2^n -> fx_of_Q n r sat (fx_val n r a) = a.
Proof.
  intros Hr Ha. unfold fx_of_Q, fx_val.
  assert (P := pow2_gt0 r Hr).
  unfold Qdiv, Qmult, Qinv. cbn [Qnum Qden inject_Z].
  destruct (2^r) eqn:E; try lia. cbn [Qnum Qden Z.mul].
  replace (Z.pos (1 * p)) with (Z.pos p) by reflexivity.
  assert (Hq : rne_div (sgn n a * 1 * Z.pos p) (Z.pos p) = sgn n a).
  { assert (Hm : (sgn n a * 1 * Z.pos p) mod Z.pos p = 0) by (apply Z_mod_mult).
    assert (H := rne_div_exact (sgn n a * 1 * Z.pos p) (Z.pos p) ltac:(lia) Hm). nia. }
  rewrite Hq. unfold fx_fit.
  assert (R := sgn_range n Hn a).
  destruct sat.
  - rewrite clamp_id by (unfold fx_min, fx_max; lia). rewrite wrap_sgn by assumption. apply wrap_id; assumption.
  - rewrite wrap_sgn by assumption. apply wrap_id; assumption.
Qed.
End F.
