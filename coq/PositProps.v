(* Theorems about the posit model (all widths n >= 2, all es >= 0, all inputs). *)
From Coq Require Import ZArith QArith Qabs Lia Lqa Bool List.
From UV Require Import RoundSpec RoundNE PositMono PositMono2 PositVal PositPad PositSpec Num PositModel.
Local Open Scope Z_scope.

(* ---- the Posit Standard rounding rule, declaratively ------------------- *)
(* p is the standard's choice for a positive real x *)
Definition std_round_pos (n es : Z) (x : Q) (p : Z) : Prop :=
  let minpos := pos_val n es 1 in let maxpos := pos_val n es (M n) in
  1 <= p <= M n /\
  ((x <= minpos)%Q -> p = 1) /\
  ((maxpos <= x)%Q -> p = M n) /\
  ((minpos < x)%Q -> (x < maxpos)%Q ->
     exists u, 1 <= u /\ u < M n /\ (pos_val n es u <= x)%Q /\ (x < pos_val n es (u + 1))%Q /\
       let v := pos_val (n + 1) es (2 * u + 1) in
       ((x < v)%Q -> p = u) /\ ((v < x)%Q -> p = u + 1) /\
       ((x == v)%Q -> (p = u \/ p = u + 1) /\ Z.even p = true)).

(* r is the standard's choice for any real x: zero only for zero, never NaR,
   negative reals by symmetry (two's complement of the magnitude's pattern) *)
Definition std_round (n es : Z) (x : Q) (r : Z) : Prop :=
  ((x == 0)%Q -> r = 0) /\
  ((0 < x)%Q -> std_round_pos n es x r) /\
  ((x < 0)%Q -> exists p, std_round_pos n es (- x) p /\ r = 2^n - p).

Section P.
Variables n es : Z.
Hypothesis Hn : 2 <= n.
Hypothesis Hes : 0 <= es.

Lemma pow_n_split : 2^n = 2 * 2^(n-1).
Proof. replace n with (Z.succ (n-1)) at 1 by lia. rewrite Z.pow_succ_r by lia. reflexivity. Qed.
Lemma pow_n1_ge2 : 2 <= 2^(n-1).
Proof. change 2 with (2^1) at 1. apply Z.pow_le_mono_r; lia. Qed.

Theorem pround_std (x : Q) : std_round n es x (pround n es x).
Proof.
  unfold std_round, pround. split; [|split].
  - intro H. rewrite (proj1 (Qeq_alt _ _) H). reflexivity.
  - intro H. rewrite (proj1 (Qgt_alt _ _) H). apply (pround_pos_std n es Hn Hes x).
  - intro H. rewrite (proj1 (Qlt_alt _ _) H). exists (pround_pos n es (- x)). split; [|reflexivity].
    apply (pround_pos_std n es Hn Hes (- x)).
Qed.

(* the result is zero only for an exact zero, and never NaR *)
Theorem pround_nonzero_not_nar (x : Q) :
  ~ (x == 0)%Q -> pround n es x <> 0 /\ pround n es x <> nar n /\ 0 < pround n es x < 2^n.
Proof.
  intro Hx. assert (P := pow_n_split). assert (P2 := pow_n1_ge2).
  unfold pround, nar.
  destruct (Qcompare x 0) eqn:E.
  - apply Qeq_alt in E. contradiction.
  - destruct (pround_pos_std n es Hn Hes (- x)) as (R & _). unfold M in R. lia.
  - destruct (pround_pos_std n es Hn Hes x) as (R & _). unfold M in R. lia.
Qed.

(* decoding: patterns 1..M are the positive values, their two's complements the negatives *)
Lemma pval_pos p : 1 <= p <= M n -> pval n es p = Some (pos_val n es p).
Proof.
  intro Hp. unfold pval, nar, M in *. assert (P2 := pow_n1_ge2).
  destruct (Z.eqb_spec p 0); [lia|]. destruct (Z.eqb_spec p (2^(n-1))); [lia|].
  destruct (Z.ltb_spec p (2^(n-1))); [reflexivity|lia].
Qed.
Lemma pval_negpat p : 1 <= p <= M n -> pval n es (2^n - p) = Some (- pos_val n es p)%Q.
Proof.
  intro Hp. unfold pval, nar, M in *. assert (P := pow_n_split). assert (P2 := pow_n1_ge2).
  destruct (Z.eqb_spec (2^n - p) 0); [lia|]. destruct (Z.eqb_spec (2^n - p) (2^(n-1))); [lia|].
  destruct (Z.ltb_spec (2^n - p) (2^(n-1))); [lia|]. do 3 f_equal. lia.
Qed.
Lemma pval_nar : pval n es (nar n) = None.
Proof.
  unfold pval, nar. assert (P2 := pow_n1_ge2).
  destruct (Z.eqb_spec (2^(n-1)) 0); [lia|]. rewrite Z.eqb_refl. reflexivity.
Qed.
Lemma pval_zero : pval n es 0 = Some 0%Q.
Proof. reflexivity. Qed.

(* exactness / round trip: every encoding is the rounding of its own value *)
Theorem pround_pval a x : 0 <= a < 2^n -> pval n es a = Some x -> pround n es x = a.
Proof.
  intros Ha Hv. assert (P := pow_n_split). assert (P2 := pow_n1_ge2).
  unfold pval in Hv. unfold nar in Hv.
  destruct (Z.eqb_spec a 0) as [->|Na]. { injection Hv as <-. reflexivity. }
  destruct (Z.eqb_spec a (2^(n-1))) as [->|Nn]; [discriminate|].
  destruct (Z.ltb_spec a (2^(n-1))) as [Hlt|Hge]; injection Hv as <-.
  - assert (Hpos : (0 < pos_val n es a)%Q).
    { unfold pos_val. apply Qmult_lt_0_compat; [apply pow2Q_pos|].
      apply Qlt_shift_div_l.
      - replace 0%Q with (inject_Z 0) by reflexivity. rewrite <- Zlt_Qlt. apply Z.pow_pos_nonneg; lia.
      - rewrite Qmult_0_l. replace 0%Q with (inject_Z 0) by reflexivity. rewrite <- Zlt_Qlt.
        assert (0 < 2^(n-1)) by lia.
        assert (0 <= (Y (n-1) a * 2^es) mod 2^(n-1)) by (apply Z.mod_pos_bound; lia). lia. }
    unfold pround. rewrite (proj1 (Qgt_alt _ _) Hpos).
    apply pround_pos_exact; auto. unfold M. lia.
  - set (p := 2^n - a). assert (Hp : 1 <= p <= M n) by (unfold M, p; lia).
    assert (Hpos : (0 < pos_val n es p)%Q).
    { unfold pos_val. apply Qmult_lt_0_compat; [apply pow2Q_pos|].
      apply Qlt_shift_div_l.
      - replace 0%Q with (inject_Z 0) by reflexivity. rewrite <- Zlt_Qlt. apply Z.pow_pos_nonneg; lia.
      - rewrite Qmult_0_l. replace 0%Q with (inject_Z 0) by reflexivity. rewrite <- Zlt_Qlt.
        assert (0 < 2^(n-1)) by lia.
        assert (0 <= (Y (n-1) p * 2^es) mod 2^(n-1)) by (apply Z.mod_pos_bound; lia). lia. }
    unfold pround.
    assert (Hneg : (- pos_val n es p < 0)%Q) by lra.
    rewrite (proj1 (Qlt_alt _ _) Hneg).
    assert (E : (- - pos_val n es p == pos_val n es p)%Q) by ring.
    assert (pround_pos n es (- - pos_val n es p) = p).
    { rewrite <- (pround_pos_exact n es Hn Hes p Hp) at 2. unfold pround_pos.
      rewrite (Qle_bool_compat_l _ _ _ E).
      destruct (Qle_bool (pos_val n es p) (ival n es 0)); [reflexivity|].
      f_equal. apply rne_compat. exact E. }
    lia.
Qed.
End P.

(* ---- the operations: declarative statements of C01 ---------------------- *)
Section Ops.
Variables n es : Z.
Hypothesis Hn : 2 <= n.
Hypothesis Hes : 0 <= es.

Lemma Qred_compat_round x : pround n es (Qred x) = pround n es x.
Proof.
  assert (E := Qred_correct x).
  unfold pround. rewrite (Qcompare_comp _ _ E _ _ (Qeq_refl 0)).
  destruct (Qcompare x 0); [reflexivity| |].
  - assert (E' : (- Qred x == - x)%Q) by (rewrite E; reflexivity).
    unfold pround_pos. rewrite (Qle_bool_compat_l _ _ _ E').
    destruct (Qle_bool (- x) _); [reflexivity|]. do 2 f_equal. apply rne_compat. exact E'.
  - unfold pround_pos. rewrite (Qle_bool_compat_l _ _ _ E).
    destruct (Qle_bool x _); [reflexivity|]. f_equal. apply rne_compat. exact E.
Qed.

(* + - * : the result is the Posit-Standard rounding of the exact result *)
Theorem arith_rounds (f : Q -> Q -> Q) a b x y :
  pval n es a = Some x -> pval n es b = Some y ->
  lift2 n es f a b = pround n es (f x y) /\ std_round n es (f x y) (lift2 n es f a b).
Proof.
  intros Ha Hb. unfold lift2. rewrite Ha, Hb. rewrite Qred_compat_round.
  split; [reflexivity|]. apply pround_std; assumption.
Qed.

Theorem div_rounds a b x y :
  pval n es a = Some x -> pval n es b = Some y -> ~ (y == 0)%Q ->
  pdiv n es a b = pround n es (x / y) /\ std_round n es (x / y) (pdiv n es a b).
Proof.
  intros Ha Hb Hy. unfold pdiv. rewrite Hb.
  destruct (Qeq_bool y 0) eqn:E; [apply Qeq_bool_iff in E; contradiction|].
  apply (arith_rounds Qdiv a b x y Ha Hb).
Qed.

Theorem recip_rounds a x :
  pval n es a = Some x -> ~ (x == 0)%Q ->
  precip n es a = pround n es (/ x) /\ std_round n es (/ x) (precip n es a).
Proof.
  intros Ha Hx. unfold precip. rewrite Ha.
  destruct (Qeq_bool x 0) eqn:E; [apply Qeq_bool_iff in E; contradiction|].
  rewrite Qred_compat_round. split; [reflexivity|]. apply pround_std; assumption.
Qed.

(* NaR operands and division by zero give NaR *)
Theorem nar_propagates (f : Q -> Q -> Q) a b :
  pval n es a = None \/ pval n es b = None -> lift2 n es f a b = nar n.
Proof. intros [H|H]; unfold lift2; rewrite H; [reflexivity|]. destruct (pval n es a); reflexivity. Qed.
Theorem div_nar a b :
  pval n es a = None \/ pval n es b = None \/ (exists y, pval n es b = Some y /\ (y == 0)%Q) -> pdiv n es a b = nar n.
Proof.
  intros [H|[H|(y & H & Hy)]]; unfold pdiv.
  - destruct (pval n es b) as [y|]; [|reflexivity]. destruct (Qeq_bool y 0); [reflexivity|].
    unfold lift2. rewrite H. reflexivity.
  - rewrite H. reflexivity.
  - rewrite H. apply Qeq_bool_iff in Hy. rewrite Hy. reflexivity.
Qed.
Theorem recip_nar a : pval n es a = None \/ (exists x, pval n es a = Some x /\ (x == 0)%Q) -> precip n es a = nar n.
Proof.
  intros [H|(x & H & Hx)]; unfold precip; rewrite H; [reflexivity|].
  apply Qeq_bool_iff in Hx. rewrite Hx. reflexivity.
Qed.

(* x - x = 0 and 0 * x = 0, exactly *)
Theorem sub_self a x : pval n es a = Some x -> psub n es a a = 0.
Proof.
  intro Ha. unfold psub. destruct (arith_rounds Qminus a a x x Ha Ha) as (E & _). rewrite E.
  unfold pround. assert (H : (x - x == 0)%Q) by ring. rewrite (proj1 (Qeq_alt _ _) H). reflexivity.
Qed.
Theorem mul_zero_l b y : pval n es b = Some y -> pmul n es 0 b = 0.
Proof.
  intro Hb. unfold pmul. destruct (arith_rounds Qmult 0 b 0%Q y (pval_zero n es) Hb) as (E & _). rewrite E.
  unfold pround. assert (H : (0 * y == 0)%Q) by ring. rewrite (proj1 (Qeq_alt _ _) H). reflexivity.
Qed.
Theorem mul_zero_r a x : pval n es a = Some x -> pmul n es a 0 = 0.
Proof.
  intro Ha. unfold pmul. destruct (arith_rounds Qmult a 0 x 0%Q Ha (pval_zero n es)) as (E & _). rewrite E.
  unfold pround. assert (H : (x * 0 == 0)%Q) by ring. rewrite (proj1 (Qeq_alt _ _) H). reflexivity.
Qed.

(* negation and abs are exact *)
Definition oQeq (a b : option Q) : Prop :=
  match a, b with Some x, Some y => (x == y)%Q | None, None => True | _, _ => False end.
Definition oQmap (f : Q -> Q) (a : option Q) := match a with Some x => Some (f x) | None => None end.

Theorem neg_exact a : 0 <= a < 2^n -> oQeq (pval n es (pneg n a)) (oQmap Qopp (pval n es a)).
Proof.
  intro Ha. assert (P := pow_n_split n Hn). assert (P2 := pow_n1_ge2 n Hn).
  unfold pneg, wrap.
  destruct (Z.eq_dec a 0) as [->|Na].
  { rewrite Z.sub_0_r, Z.mod_same by lia. cbn. reflexivity. }
  rewrite Z.mod_small by lia.
  destruct (Z.eq_dec a (nar n)) as [->|Nn].
  { replace (2^n - nar n) with (nar n) by (unfold nar; lia). rewrite pval_nar by assumption. exact I. }
  unfold nar in Nn.
  destruct (Z.lt_ge_cases a (2^(n-1))) as [Hlt|Hge].
  - rewrite (pval_negpat n es Hn a) by (unfold M; lia). rewrite (pval_pos n es Hn a) by (unfold M; lia).
    cbn. reflexivity.
  - replace a with (2^n - (2^n - a)) at 2 by lia.
    rewrite (pval_negpat n es Hn (2^n - a)) by (unfold M; lia).
    rewrite (pval_pos n es Hn (2^n - a)) by (unfold M; lia). cbn. ring.
Qed.

Theorem abs_exact a : 0 <= a < 2^n -> oQeq (pval n es (pabs n a)) (oQmap Qabs (pval n es a)).
Proof.
  intro Ha. assert (P := pow_n_split n Hn). assert (P2 := pow_n1_ge2 n Hn).
  assert (Hposv : forall p, 1 <= p <= M n -> (0 < pos_val n es p)%Q).
  { intros p Hp. unfold pos_val. apply Qmult_lt_0_compat; [apply pow2Q_pos|].
    apply Qlt_shift_div_l.
    - replace 0%Q with (inject_Z 0) by reflexivity. rewrite <- Zlt_Qlt. apply Z.pow_pos_nonneg; lia.
    - rewrite Qmult_0_l. replace 0%Q with (inject_Z 0) by reflexivity. rewrite <- Zlt_Qlt.
      assert (0 <= (Y (n-1) p * 2^es) mod 2^(n-1)) by (apply Z.mod_pos_bound; lia). lia. }
  unfold pabs, nar. destruct (Z.ltb_spec (2^(n-1)) a) as [Hgt|Hle].
  - unfold pneg, wrap. rewrite Z.mod_small by lia.
    replace a with (2^n - (2^n - a)) at 2 by lia.
    rewrite (pval_negpat n es Hn (2^n - a)) by (unfold M; lia).
    rewrite (pval_pos n es Hn (2^n - a)) by (unfold M; lia). unfold oQeq, oQmap.
    assert (H := Hposv (2^n - a) ltac:(unfold M; lia)).
    rewrite Qabs_neg by lra. ring.
  - destruct (Z.eq_dec a 0) as [->|Na]. { cbn. reflexivity. }
    destruct (Z.eq_dec a (2^(n-1))) as [->|Nn]. { fold (nar n). rewrite pval_nar by assumption. exact I. }
    rewrite (pval_pos n es Hn a) by (unfold M; lia). unfold oQeq, oQmap.
    assert (H := Hposv a ltac:(unfold M; lia)). rewrite Qabs_pos by lra. reflexivity.
Qed.
End Ops.
