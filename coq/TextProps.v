(* C16: the model's decimal printer and parser are inverse: parse_int (dec_of_Z z) = Some z for every integer z *)
From Coq Require Import ZArith Lia Bool List.
From UV Require Import Num TextModel.
Import ListNotations.
Local Open Scope Z_scope.

Definition isdig (c : Z) : Prop := 48 <= c <= 57.
Definition dstep (a c : Z) : Z := a * 10 + (c - 48).

Lemma digit_val_dig c : isdig c -> digit_val c = Some (c - 48).
Proof.
  unfold isdig, digit_val. intro H.
  destruct (Z.leb_spec 48 c); [|lia]. destruct (Z.leb_spec c 57); [|lia]. reflexivity.
Qed.

Lemma parse_digits_fold l : Forall isdig l -> forall k, parse_digits 10 l k = Some (fold_left dstep l k).
Proof.
  induction 1 as [|c l Hc Hl IH]; intro k; cbn [parse_digits fold_left]; [reflexivity|].
  rewrite (digit_val_dig c Hc). unfold isdig in Hc.
  destruct (Z.ltb_spec (c - 48) 10); [|lia]. rewrite IH. reflexivity.
Qed.

Lemma fold_dstep_app l1 l2 k : fold_left dstep (l1 ++ l2) k = fold_left dstep l2 (fold_left dstep l1 k).
Proof. apply fold_left_app. Qed.

(* the digit generator: with enough fuel it prepends to acc a list of digits whose value is z *)
Lemma dec_digits_spec : forall (fuel : nat) z acc, 0 <= z < 10 ^ Z.of_nat fuel -> (fuel <> O \/ z = 0) ->
  exists ds, dec_digits fuel z acc = ds ++ acc /\ Forall isdig ds /\ fold_left dstep ds 0 = z /\ (fuel <> O -> ds <> []).
Proof.
  induction fuel as [|f IH]; intros z acc Hz Hf.
  - exists []. assert (z = 0) by (destruct Hf as [Hf|Hf]; [congruence|exact Hf]). subst z. cbn. repeat split; [constructor|intro; congruence].
  - cbn [dec_digits]. destruct (Z.ltb_spec z 10) as [Hlt|Hge].
    + exists [48 + z]. repeat split.
      * constructor; [unfold isdig; lia|constructor].
      * cbn [fold_left]. unfold dstep. lia.
      * intros _. discriminate.
    + assert (Hf0 : f <> O).
      { intro E. subst f. assert (10 ^ Z.of_nat 1 = 10) by reflexivity. lia. }
      assert (Hq : 0 <= z / 10 < 10 ^ Z.of_nat f).
      { split; [apply Z.div_pos; lia|]. apply Z.div_lt_upper_bound; [lia|].
        rewrite Nat2Z.inj_succ, Z.pow_succ_r in Hz by lia. lia. }
      destruct (IH (z / 10) ((48 + z mod 10) :: acc) Hq (or_introl Hf0)) as (ds & E & Fd & V & NE).
      exists (ds ++ [48 + z mod 10]). repeat split.
      * rewrite E, <- app_assoc. reflexivity.
      * apply Forall_app. split; [exact Fd|]. constructor; [|constructor].
        unfold isdig. assert (0 <= z mod 10 < 10) by (apply Z.mod_pos_bound; lia). lia.
      * rewrite fold_dstep_app, V. cbn [fold_left]. unfold dstep.
        assert (z = 10 * (z / 10) + z mod 10) by (apply Z.div_mod; lia). lia.
      * intros _ C. apply app_eq_nil in C. destruct C as [_ C]. discriminate.
Qed.

Lemma fuel_enough z : 0 <= z -> z < 10 ^ Z.of_nat (S (Z.to_nat (Z.log2 (z + 1)))).
Proof.
  intro Hz. rewrite Nat2Z.inj_succ, Z2Nat.id by apply Z.log2_nonneg.
  assert (L := Z.log2_spec (z + 1) ltac:(lia)). destruct L as [_ L].
  assert (2 ^ Z.succ (Z.log2 (z + 1)) <= 10 ^ Z.succ (Z.log2 (z + 1))).
  { apply Z.pow_le_mono_l. lia. }
  lia.
Qed.

Lemma dec_of_nat_spec z : 0 <= z ->
  exists ds, dec_of_nat z = ds /\ Forall isdig ds /\ fold_left dstep ds 0 = z /\ ds <> [].
Proof.
  intro Hz. unfold dec_of_nat.
  remember (S (Z.to_nat (Z.log2 (z + 1)))) as fuel eqn:Ef.
  assert (Hb : 0 <= z < 10 ^ Z.of_nat fuel) by (subst fuel; split; [exact Hz|apply fuel_enough; exact Hz]).
  assert (Hn : fuel <> O \/ z = 0) by (left; subst fuel; discriminate).
  destruct (dec_digits_spec fuel z [] Hb Hn) as (ds & E & Fd & V & NE).
  exists ds. rewrite E, app_nil_r. repeat split; auto. apply NE. subst fuel. discriminate.
Qed.

Theorem parse_dec_of_nat z : 0 <= z -> parse_digits 10 (dec_of_nat z) 0 = Some z.
Proof.
  intro Hz. destruct (dec_of_nat_spec z Hz) as (ds & -> & Fd & V & _).
  rewrite (parse_digits_fold ds Fd 0), V. reflexivity.
Qed.

(* a non-empty list of decimal digits is read by parse_int as a decimal number (it cannot look like a sign or a 0x prefix) *)
Lemma dig_cases c : isdig c -> c = 48 \/ c = 49 \/ c = 50 \/ c = 51 \/ c = 52 \/ c = 53 \/ c = 54 \/ c = 55 \/ c = 56 \/ c = 57.
Proof. unfold isdig. lia. Qed.
Lemma parse_int_digits ds : Forall isdig ds -> ds <> [] -> parse_int ds = parse_digits 10 ds 0.
Proof.
  intros Fd NE. destruct ds as [|c ds]; [congruence|].
  inversion Fd as [|? ? Hc Hr]; subst.
  destruct (dig_cases c Hc) as [->|[->|[->|[->|[->|[->|[->|[->|[->| ->]]]]]]]]]; try reflexivity.
  (* c = '0': the next character is a digit or the end, never 'x' / 'X' *)
  destruct ds as [|d ds]; [reflexivity|].
  inversion Hr as [|? ? Hd _]; subst.
  destruct (dig_cases d Hd) as [->|[->|[->|[->|[->|[->|[->|[->|[->| ->]]]]]]]]]; reflexivity.
Qed.

Theorem parse_int_dec_of_Z z : parse_int (dec_of_Z z) = Some z.
Proof.
  unfold dec_of_Z. destruct (Z.ltb_spec z 0) as [Hn|Hp].
  - cbn [parse_int]. rewrite (parse_dec_of_nat (- z)) by lia. f_equal. lia.
  - destruct (dec_of_nat_spec z Hp) as (ds & E & Fd & V & NE). rewrite E.
    rewrite (parse_int_digits ds Fd NE). rewrite <- E. apply parse_dec_of_nat. exact Hp.
Qed.
