(* C16: the model's decimal printer and parser are inverse: parse_int (dec_of_Z z) = Some z for every integer z *)
From Coq Require Import ZArith Lia Bool List.
From UV Require Import Num TextModel.
Import ListNotations.
Local Open Scope Z_scope.

Definition isdig (c : Z) : Prop := 48 <= c <= 57.
Definition dstep (a c : Z) : Z := a * 10 + (c - 48).

Lemma digit_val_dig c : isdig c -> digit_val c = Some (c - 48).
Proof.
  unfold isdig, digit_val. intro H.
  destruct (Z.leb_spec 48 c); [|lia]. destruct (Z.leb_spec c 57); [|lia]. reflexivity.
Qed.

Lemma parse_digits_fold l : Forall isdig l -> forall k, parse_digits 10 l k = Some (fold_left dstep l k).
Proof.
  induction 1 as [|c l Hc Hl IH]; intro k; cbn [parse_digits fold_left]; [reflexivity|].
  rewrite (digit_val_dig c Hc). unfold isdig in Hc.
  destruct (Z.ltb_spec (c - 48) 10); [|lia]. rewrite IH. reflexivity.
Qed.

Lemma fold_dstep_app l1 l2 k : fold_left dstep (l1 ++ l2) k = fold_left dstep l2 (fold_left dstep l1 k).
Proof. apply fold_left_app. Qed.

(* the digit generator: with enough fuel it prepends to acc a list of digits whose value is z *)
Lemma dec_digits_spec : forall (fuel : nat) z acc, 0 <= z < 10 ^ Z.of_nat fuel -> (fuel <> O \/ z = 0) ->
  exists ds, dec_digits fuel z acc = ds ++ acc /\ Forall isdig ds /\ fold_left dstep ds 0 = z /\ (fuel <> O -> ds <> []).
Proof.
  induction fuel as [|f IH]; intros z acc Hz Hf.
  - exists []. assert (z = 0) by (destruct Hf as [Hf|Hf]; [congruence|exact Hf]). subst z. cbn. repeat split; [constructor|intro; congruence].
  - cbn [dec_digits]. destruct (Z.ltb_spec z 10) as [Hlt|Hge].
    + exists [48 + z]. repeat split.
      * constructor; [unfold isdig; lia|constructor].
      * cbn [fold_left]. unfold dstep. lia.
      * intros _. discriminate.
    + assert (Hf0 : f <> O).
      { intro E. subst f. assert (10 ^ Z.of_nat 1 = 10) by reflexivity. lia. }
      assert (Hq : 0 <= z / 10 < 10 ^ Z.of_nat f).
      { split; [apply Z.div_pos; lia|]. apply Z.div_lt_upper_bound; [lia|].
        rewrite Nat2Z.inj_succ, Z.pow_succ_r in Hz by lia. lia. }
      destruct (IH (z / 10) ((48 + z mod 10) :: acc) Hq (or_introl Hf0)) as (ds & E & Fd & V & NE).
      exists (ds ++ [48 + z mod 10]). repeat split.
      * rewrite E, <- app_assoc. reflexivity.
      * apply Forall_app. split; [exact Fd|]. constructor; [|constructor].
        unfold isdig. assert (0 <= z mod 10 < 10) by (apply Z.mod_pos_bound; lia). lia.
      * rewrite fold_dstep_app, V. cbn [fold_left]. unfold dstep.
        assert (z = 10 * (z / 10) + z mod 10) by (apply Z.div_mod; lia). lia.
      * intros _ C. apply app_eq_nil in C. destruct C as [_ C]. discriminate.
Qed.

Lemma fuel_enough z : 0 <= z -> z < 10 ^ Z.of_nat (S (Z.to_nat (Z.log2 (z + 1)))).
Proof.
  intro Hz. rewrite Nat2Z.inj_succ, Z2Nat.id by apply Z.log2_nonneg.
  assert (L := Z.log2_spec (z + 1) ltac:(lia)). destruct L as [_ L].
  assert (2 ^ Z.succ (Z.log2 (z + 1)) <= 10 ^ Z.succ (Z.log2 (z + 1))).
  { apply Z.pow_le_mono_l. lia. }
  lia.
Qed.

Lemma dec_of_nat_spec z : 0 <= z ->
  exists ds, dec_of_nat z = ds /\ Forall isdig ds /\ fold_left dstep ds 0 = z /\ ds <> [].
Proof.
  intro Hz. unfold dec_of_nat.
  remember (S (Z.to_nat (Z.log2 (z + 1)))) as fuel eqn:Ef.
  assert (Hb : 0 <= z < 10 ^ Z.of_nat fuel) by (subst fuel; split; [exact Hz|apply fuel_enough; exact Hz]).
  assert (Hn : fuel <> O \/ z = 0) by (left; subst fuel; discriminate).
  destruct (dec_digits_spec fuel z [] Hb Hn) as (ds & E & Fd & V & NE).
  exists ds. rewrite E, app_nil_r. repeat split; auto. apply NE. subst fuel. discriminate.
Qed.

Theorem parse_dec_of_nat z : 0 <= z -> parse_digits 10 (dec_of_nat z) 0 = Some z.
Proof.
  intro Hz. destruct (dec_of_nat_spec z Hz) as (ds & -> & Fd & V & _).
  rewrite (parse_digits_fold ds Fd 0), V. reflexivity.
Qed.

(* a non-empty list of decimal digits is read by parse_int as a decimal number (it cannot look like a sign or a 0x prefix) *)
Lemma dig_cases c : isdig c -> c = 48 \/ c = 49 \/ c = 50 \/ c = 51 \/ c = 52 \/ c = 53 \/ c = 54 \/ c = 55 \/ c = 56 \/ c = 57.
Proof. unfold isdig. lia. Qed.
Lemma parse_int_digits ds : Forall isdig ds -> ds <> [] -> parse_int ds = parse_digits 10 ds 0.
Proof.
  intros Fd NE. destruct ds as [|c ds]; [congruence|].
  inversion Fd as [|? ? Hc Hr]; subst.
  destruct (dig_cases c Hc) as [->|[->|[->|[->|[->|[->|[->|[->|[->| ->]]]]]]]]]; try reflexivity.
  (* c = '0': the next character is a digit or the end, never 'x' / 'X' *)
  destruct ds as [|d ds]; [reflexivity|].
  inversion Hr as [|? ? Hd _]; subst.
  destruct (dig_cases d Hd) as [->|[->|[->|[->|[->|[->|[->|[->|[->| ->]]]]]]]]]; reflexivity.
Qed.

Theorem parse_int_dec_of_Z z : parse_int (dec_of_Z z) = Some z.
Proof.
  unfold dec_of_Z. destruct (Z.ltb_spec z 0) as [Hn|Hp].
  - cbn [parse_int]. rewrite (parse_dec_of_nat (- z)) by lia. f_equal. lia.
  - destruct (dec_of_nat_spec z Hp) as (ds & E & Fd & V & NE). rewrite E.
    rewrite (parse_int_digits ds Fd NE). rewrite <- E. apply parse_dec_of_nat. exact Hp.
Qed.

(* ---- fixed-width hexadecimal and binary digit strings parse back to the number (any width) ---- *)
Lemma parse_digits_app_b b : forall l1 l2 acc v,
  parse_digits b l1 acc = Some v -> parse_digits b (l1 ++ l2) acc = parse_digits b l2 v.
Proof.
  induction l1 as [|c l1 IH]; intros l2 acc v H; cbn [parse_digits app] in *.
  - injection H as ->. reflexivity.
  - destruct (digit_val c) as [d|]; [|discriminate]. destruct (Z.ltb d b); [|discriminate]. apply IH. exact H.
Qed.
Lemma digit_val_hexit d : 0 <= d < 16 -> digit_val (hexit d) = Some d.
Proof.
  intros H. assert (E : exists n, (n < 16)%nat /\ d = Z.of_nat n) by (exists (Z.to_nat d); lia).
  destruct E as (n & Hn & ->). do 16 (destruct n as [|n]; [reflexivity|]). lia.
Qed.
Lemma digit_val_bit d : 0 <= d < 2 -> digit_val (48 + d) = Some d.
Proof. intros H. assert (E : d = 0 \/ d = 1) by lia. destruct E as [-> | ->]; reflexivity. Qed.

Theorem hex_fixed_parse : forall (k : nat) a acc, 0 <= a < 16 ^ Z.of_nat k ->
  parse_digits 16 (hex_fixed k a) acc = Some (acc * 16 ^ Z.of_nat k + a).
Proof.
  induction k as [|k IH]; intros a acc Ha.
  - cbn [hex_fixed parse_digits]. change (16 ^ Z.of_nat 0) with 1 in *. f_equal. lia.
  - cbn [hex_fixed]. rewrite Nat2Z.inj_succ, Z.pow_succ_r in * by lia.
    assert (Hq : 0 <= a / 16 < 16 ^ Z.of_nat k).
    { split; [apply Z.div_pos; lia|]. apply Z.div_lt_upper_bound; lia. }
    rewrite (parse_digits_app_b 16 _ _ acc _ (IH (a / 16) acc Hq)).
    cbn [parse_digits]. rewrite digit_val_hexit by (apply Z.mod_pos_bound; lia).
    assert (Hm : a mod 16 <? 16 = true) by (apply Z.ltb_lt; apply Z.mod_pos_bound; lia).
    rewrite Hm. f_equal. pose proof (Z.div_mod a 16 ltac:(lia)). lia.
Qed.
Theorem bin_fixed_parse : forall (k : nat) a acc, 0 <= a < 2 ^ Z.of_nat k ->
  parse_digits 2 (bin_fixed k a) acc = Some (acc * 2 ^ Z.of_nat k + a).
Proof.
  induction k as [|k IH]; intros a acc Ha.
  - cbn [bin_fixed parse_digits]. change (2 ^ Z.of_nat 0) with 1 in *. f_equal. lia.
  - cbn [bin_fixed]. rewrite Nat2Z.inj_succ, Z.pow_succ_r in * by lia.
    assert (Hq : 0 <= a / 2 < 2 ^ Z.of_nat k).
    { split; [apply Z.div_pos; lia|]. apply Z.div_lt_upper_bound; lia. }
    rewrite (parse_digits_app_b 2 _ _ acc _ (IH (a / 2) acc Hq)).
    cbn [parse_digits]. rewrite digit_val_bit by (apply Z.mod_pos_bound; lia).
    assert (Hm : a mod 2 <? 2 = true) by (apply Z.ltb_lt; apply Z.mod_pos_bound; lia).
    rewrite Hm. f_equal. pose proof (Z.div_mod a 2 ltac:(lia)). lia.
Qed.
(* the hexadecimal integer literal: "0x" followed by the hexits *)
Theorem parse_int_hex (k : nat) a : 0 <= a < 16 ^ Z.of_nat k -> parse_int (48 :: 120 :: hex_fixed k a) = Some a.
Proof. intros H. cbn [parse_int]. rewrite (hex_fixed_parse k a 0 H). f_equal. Qed.

(* ---- cfloat: assign (to_binary x) = x, for every width and exponent size ---- *)
Definition isbd (c : Z) : Prop := c = 48 \/ c = 49 \/ c = 46.
Fixpoint nbitc (l : list Z) : Z := match l with [] => 0 | c :: r => (if Z.eqb c 46 then 0 else 1) + nbitc r end.
Fixpoint ndotc (l : list Z) : Z := match l with [] => 0 | c :: r => (if Z.eqb c 46 then 1 else 0) + ndotc r end.
Lemma cf_scan_clean : forall l nb nd acc, Forall isbd l ->
  cf_scan l nb nd acc = Some (nb + nbitc l, nd + ndotc l, rev acc ++ l).
Proof.
  induction l as [|c l IH]; intros nb nd acc H; cbn [cf_scan nbitc ndotc].
  - rewrite app_nil_r. do 2 f_equal; f_equal; lia.
  - inversion H as [|? ? Hc Hl]; subst. destruct Hc as [-> | [-> | ->]]; cbn [Z.eqb Pos.eqb orb];
      rewrite IH by exact Hl; cbn [rev]; rewrite <- app_assoc; cbn [app]; do 2 f_equal; f_equal; lia.
Qed.
Lemma nbitc_app l1 l2 : nbitc (l1 ++ l2) = nbitc l1 + nbitc l2.
Proof. induction l1 as [|c l1 IH]; cbn [app nbitc]; [lia | rewrite IH; lia]. Qed.
Lemma ndotc_app l1 l2 : ndotc (l1 ++ l2) = ndotc l1 + ndotc l2.
Proof. induction l1 as [|c l1 IH]; cbn [app ndotc]; [lia | rewrite IH; lia]. Qed.
Lemma bin_fixed_bits : forall (k : nat) a, Forall isbd (bin_fixed k a) /\ nbitc (bin_fixed k a) = Z.of_nat k /\ ndotc (bin_fixed k a) = 0.
Proof.
  induction k as [|k IH]; intros a; cbn [bin_fixed].
  - repeat split; constructor.
  - destruct (IH (a / 2)) as (F & B & D). rewrite nbitc_app, ndotc_app, B, D.
    assert (E : a mod 2 = 0 \/ a mod 2 = 1) by (pose proof (Z.mod_pos_bound a 2 ltac:(lia)); lia).
    split; [|destruct E as [-> | ->]; cbn; lia].
    apply Forall_app. split; [exact F|]. constructor; [|constructor]. unfold isbd. lia.
Qed.
Lemma cf_fill_bits es : forall (k : nat) x r field nrexp bit v, 0 <= x < 2 ^ Z.of_nat k -> Z.of_nat k <= bit ->
  cf_fill es (bin_fixed k x ++ r) field nrexp bit v =
  cf_fill es r field (if Z.eqb field 1 then nrexp + Z.of_nat k else nrexp) (bit - Z.of_nat k) (v + x * 2 ^ (bit - Z.of_nat k)).
Proof.
  induction k as [|k IH]; intros x r field nrexp bit v Hx Hb.
  - cbn [bin_fixed app]. change (2 ^ Z.of_nat 0) with 1 in Hx. replace x with 0 by lia.
    change (Z.of_nat 0) with 0. rewrite !Z.add_0_r, Z.sub_0_r. destruct (Z.eqb field 1); reflexivity.
  - cbn [bin_fixed]. rewrite <- app_assoc. rewrite Nat2Z.inj_succ in *. rewrite Z.pow_succ_r in Hx by lia.
    assert (Hq : 0 <= x / 2 < 2 ^ Z.of_nat k).
    { split; [apply Z.div_pos; lia|]. apply Z.div_lt_upper_bound; lia. }
    rewrite IH by (try exact Hq; lia). cbn [app cf_fill].
    assert (E : x mod 2 = 0 \/ x mod 2 = 1) by (pose proof (Z.mod_pos_bound x 2 ltac:(lia)); lia).
    assert (N46 : Z.eqb (48 + x mod 2) 46 = false) by (apply Z.eqb_neq; lia).
    rewrite N46.
    replace (bit - Z.of_nat k - 1) with (bit - Z.succ (Z.of_nat k)) by lia.
    f_equal.
    + destruct (Z.eqb field 1); lia.
    + replace (48 + x mod 2 - 48) with (x mod 2) by lia.
      replace (bit - Z.of_nat k) with (Z.succ (bit - Z.succ (Z.of_nat k))) by lia.
      rewrite Z.pow_succ_r by lia. pose proof (Z.div_mod x 2 ltac:(lia)). nia.
Qed.
Lemma split3 n es a : 0 <= es -> es + 1 <= n -> 0 <= a < 2 ^ n ->
  let f := n - 1 - es in
  a / 2 ^ (n - 1) * 2 ^ (n - 1) + (a / 2 ^ f) mod 2 ^ es * 2 ^ f + a mod 2 ^ f = a /\
  0 <= a / 2 ^ (n - 1) < 2 /\ 0 <= (a / 2 ^ f) mod 2 ^ es < 2 ^ es /\ 0 <= a mod 2 ^ f < 2 ^ f.
Proof.
  intros Hes Hn Ha f. assert (Hf : 0 <= f) by (unfold f; lia).
  assert (P1 : 0 < 2 ^ f) by (apply Z.pow_pos_nonneg; lia).
  assert (P2 : 0 < 2 ^ es) by (apply Z.pow_pos_nonneg; lia).
  assert (E : 2 ^ (n - 1) = 2 ^ f * 2 ^ es) by (rewrite <- Z.pow_add_r by lia; f_equal; unfold f; lia).
  assert (En : 2 ^ n = 2 * 2 ^ (n - 1)) by (rewrite <- Z.pow_succ_r by lia; f_equal; lia).
  assert (D : a / 2 ^ (n - 1) = a / 2 ^ f / 2 ^ es) by (rewrite E, Z.div_div by lia; reflexivity).
  pose proof (Z.div_mod a (2 ^ f) ltac:(lia)) as M1.
  pose proof (Z.div_mod (a / 2 ^ f) (2 ^ es) ltac:(lia)) as M2.
  pose proof (Z.mod_pos_bound a (2 ^ f) P1). pose proof (Z.mod_pos_bound (a / 2 ^ f) (2 ^ es) P2).
  repeat split; try lia.
  - apply Z.div_pos; lia.
  - apply Z.div_lt_upper_bound; lia.
Qed.

Theorem cf_assign_to_binary n es a : 0 <= es -> es + 1 <= n -> 0 <= a < 2 ^ n ->
  cf_assign n es (cf_bin_string n es a) = a.
Proof.
  intros Hes Hn Ha. destruct (split3 n es a Hes Hn Ha) as (Sum & Hs & He & Hf).
  unfold cf_bin_string. set (f := n - 1 - es) in *.
  set (s := a / 2 ^ (n - 1)) in *. set (e := (a / 2 ^ f) mod 2 ^ es) in *. set (fr := a mod 2 ^ f) in *.
  assert (Hf0 : 0 <= f) by (unfold f; lia).
  cbn [app cf_assign].
  destruct (bin_fixed_bits 1 s) as (F1 & B1 & D1).
  destruct (bin_fixed_bits (Z.to_nat es) e) as (F2 & B2 & D2).
  destruct (bin_fixed_bits (Z.to_nat f) fr) as (F3 & B3 & D3).
  rewrite Z2Nat.id in B2, B3 by lia.
  assert (Fd : forall l, Forall isbd l -> Forall isbd (46 :: l)) by (intros l Hl; constructor; [unfold isbd; lia | exact Hl]).
  rewrite cf_scan_clean by (apply Forall_app; split; [exact F1|]; apply Fd; apply Forall_app; split; [exact F2|]; apply Fd; exact F3).
  cbn [rev app].
  rewrite !nbitc_app, !ndotc_app. cbn [nbitc ndotc Z.eqb Pos.eqb]. rewrite !nbitc_app, !ndotc_app. cbn [nbitc ndotc Z.eqb Pos.eqb].
  rewrite B1, B2, B3, D1, D2, D3.
  cbn [Z.add Z.eqb Pos.eqb andb Pos.add].
  (* second pass *)
  rewrite (cf_fill_bits es 1 s) by (cbn; lia).
  cbn [cf_fill Z.eqb Pos.eqb Z.add andb Pos.add Z.opp].
  rewrite (cf_fill_bits es (Z.to_nat es) e) by (rewrite Z2Nat.id by lia; lia).
  rewrite Z2Nat.id by lia.
  cbn [cf_fill Z.eqb Pos.eqb Z.add andb Pos.add].
  rewrite Z.eqb_refl. cbn [negb].
  rewrite <- (app_nil_r (bin_fixed (Z.to_nat f) fr)).
  rewrite (cf_fill_bits es (Z.to_nat f) fr) by (rewrite Z2Nat.id by lia; lia).
  rewrite Z2Nat.id by lia. cbn [cf_fill Z.eqb Pos.eqb].
  change (Z.of_nat 1) with 1.
  replace (n - 1 - es - f) with 0 by (unfold f; lia). replace (n - 1 - es) with f by reflexivity.
  assert (Hc : (1 + (es + f) =? n) = true) by (apply Z.eqb_eq; unfold f; lia).
  rewrite Hc. cbn [andb]. change (2 ^ 0) with 1. lia.
Qed.

(* ---- fixpnt: assign (to_binary x) = x ---- *)
Lemma rev_bin_fixed_S k x : rev (bin_fixed (S k) x) = (48 + x mod 2) :: rev (bin_fixed k (x / 2)).
Proof. cbn [bin_fixed]. rewrite rev_app_distr. reflexivity. Qed.
Lemma fx_fill_bits r : forall (k : nat) x t pos v, 0 <= x < 2 ^ Z.of_nat k -> 0 <= pos ->
  fx_fill r (rev (bin_fixed k x) ++ t) pos v = fx_fill r t (pos + Z.of_nat k) (v + x * 2 ^ pos).
Proof.
  induction k as [|k IH]; intros x t pos v Hx Hp.
  - change (2 ^ Z.of_nat 0) with 1 in Hx. replace x with 0 by lia. cbn [bin_fixed rev app].
    change (Z.of_nat 0) with 0. rewrite Z.add_0_r, Z.mul_0_l, Z.add_0_r. reflexivity.
  - rewrite rev_bin_fixed_S. rewrite Nat2Z.inj_succ in *. rewrite Z.pow_succ_r in Hx by lia.
    assert (Hq : 0 <= x / 2 < 2 ^ Z.of_nat k).
    { split; [apply Z.div_pos; lia|]. apply Z.div_lt_upper_bound; lia. }
    pose proof (Z.div_mod x 2 ltac:(lia)) as DM.
    assert (P : 2 ^ (pos + 1) = 2 * 2 ^ pos) by (rewrite <- Z.pow_succ_r by lia; f_equal).
    assert (E : x mod 2 = 0 \/ x mod 2 = 1) by (pose proof (Z.mod_pos_bound x 2 ltac:(lia)); lia).
    cbn [app fx_fill]. destruct E as [E | E]; rewrite E; cbn [Z.add Z.eqb Pos.eqb Pos.add];
      rewrite IH by (try exact Hq; lia); f_equal; try lia; rewrite P; nia.
Qed.
Theorem fx_assign_to_binary n r a : 0 <= r <= n -> 1 <= n -> 0 <= a < 2 ^ n ->
  fx_assign n r (fx_bin_string n r a) = a.
Proof.
  intros Hr Hn Ha. unfold fx_bin_string.
  assert (P : 0 < 2 ^ r) by (apply Z.pow_pos_nonneg; lia).
  pose proof (Z.div_mod a (2 ^ r) ltac:(lia)) as DM. pose proof (Z.mod_pos_bound a (2 ^ r) P) as MB.
  assert (Hfr : 0 <= a mod 2 ^ r < 2 ^ Z.of_nat (Z.to_nat r)) by (rewrite Z2Nat.id by lia; exact MB).
  set (F := bin_fixed (Z.to_nat r) (a mod 2 ^ r)) in *.
  destruct (Z.ltb_spec r n) as [Hlt | Hge].
  - assert (Hi : 0 <= a / 2 ^ r < 2 ^ Z.of_nat (Z.to_nat (n - r))).
    { rewrite Z2Nat.id by lia. split; [apply Z.div_pos; lia|]. apply Z.div_lt_upper_bound; [lia|].
      rewrite <- Z.pow_add_r by lia. replace (r + (n - r)) with n by lia. lia. }
    set (I := bin_fixed (Z.to_nat (n - r)) (a / 2 ^ r)) in *.
    assert (NI : exists c t, I ++ 46 :: F = c :: t) by (destruct I; cbn [app]; eauto).
    destruct NI as (c & t & NI).
    cbn [app]. unfold fx_assign. rewrite NI. rewrite <- NI.
    replace (rev (48 :: 98 :: I ++ 46 :: F)) with (rev F ++ 46 :: (rev I ++ [98; 48])).
    2:{ cbn [rev]. rewrite !rev_app_distr. cbn [rev app]. rewrite <- !app_assoc. reflexivity. }
    unfold F. rewrite fx_fill_bits by (try exact Hfr; lia). rewrite Z2Nat.id by lia.
    cbn [fx_fill Z.eqb Pos.eqb Z.add]. rewrite Z.eqb_refl.
    unfold I. rewrite fx_fill_bits by (try exact Hi; lia).
    cbn [fx_fill Z.eqb Pos.eqb]. change (2 ^ 0) with 1.
    replace (a mod 2 ^ r * 1 + a / 2 ^ r * 2 ^ r) with a by lia. apply Z.mod_small. exact Ha.
  - assert (r = n) by lia. subst r.
    cbn [app]. unfold fx_assign.
    replace (rev (48 :: 98 :: 48 :: 46 :: F)) with (rev F ++ [46; 48; 98; 48]).
    2:{ cbn [rev]. rewrite <- !app_assoc. reflexivity. }
    unfold F. rewrite fx_fill_bits by (try exact Hfr; lia). rewrite Z2Nat.id by lia.
    cbn [fx_fill Z.eqb Pos.eqb Z.add]. rewrite Z.eqb_refl. cbn [fx_fill Z.eqb Pos.eqb].
    change (2 ^ 0) with 1. rewrite Z.mod_small with (a := a) (b := 2 ^ n) in * by lia.
    replace (a * 1) with a by lia. apply Z.mod_small. exact Ha.
Qed.

(* ---- integer to_hex (upper case) parses back ---- *)
Lemma digit_val_hexitU d : 0 <= d < 16 -> digit_val (hexitU d) = Some d.
Proof.
  intros H. assert (E : exists n, (n < 16)%nat /\ d = Z.of_nat n) by (exists (Z.to_nat d); lia).
  destruct E as (n & Hn & ->). do 16 (destruct n as [|n]; [reflexivity|]). lia.
Qed.
Theorem hex_fixedU_parse : forall (k : nat) a acc, 0 <= a < 16 ^ Z.of_nat k ->
  parse_digits 16 (hex_fixedU k a) acc = Some (acc * 16 ^ Z.of_nat k + a).
Proof.
  induction k as [|k IH]; intros a acc Ha.
  - cbn [hex_fixedU parse_digits]. change (16 ^ Z.of_nat 0) with 1 in *. f_equal. lia.
  - cbn [hex_fixedU]. rewrite Nat2Z.inj_succ, Z.pow_succ_r in * by lia.
    assert (Hq : 0 <= a / 16 < 16 ^ Z.of_nat k).
    { split; [apply Z.div_pos; lia|]. apply Z.div_lt_upper_bound; lia. }
    rewrite (parse_digits_app_b 16 _ _ acc _ (IH (a / 16) acc Hq)).
    cbn [parse_digits]. rewrite digit_val_hexitU by (apply Z.mod_pos_bound; lia).
    assert (Hm : a mod 16 <? 16 = true) by (apply Z.ltb_lt; apply Z.mod_pos_bound; lia).
    rewrite Hm. f_equal. pose proof (Z.div_mod a 16 ltac:(lia)). lia.
Qed.
Theorem parse_int_hex_string n a : 1 <= n -> 0 <= a < 2 ^ n -> parse_int (int_hex_string n a) = Some a.
Proof.
  intros Hn Ha. unfold int_hex_string. cbn [parse_int].
  rewrite hex_fixedU_parse; [f_equal; lia|].
  rewrite Z2Nat.id by (pose proof (Z.div_pos (n - 1) 4 ltac:(lia) ltac:(lia)); lia).
  split; [lia|]. eapply Z.lt_le_trans; [apply Ha|].
  replace 16 with (2 ^ 4) by reflexivity. rewrite <- Z.pow_mul_r by (pose proof (Z.div_pos (n - 1) 4 ltac:(lia) ltac:(lia)); lia).
  apply Z.pow_le_mono_r; [lia|]. pose proof (Z.div_mod (n - 1) 4 ltac:(lia)). pose proof (Z.mod_pos_bound (n - 1) 4 ltac:(lia)). lia.
Qed.

(* ---- parse (hex_format p) = p ---- *)
Lemma isdig_b c : isdig c -> isdigb c = true.
Proof. unfold isdig, isdigb. intros [H1 H2]. apply andb_true_iff; split; apply Z.leb_le; lia. Qed.
Lemma span_dig_app : forall ds c r, Forall isdig ds -> isdigb c = false -> span_dig (ds ++ c :: r) = (ds, c :: r).
Proof.
  induction ds as [|d ds IH]; intros c r F Hc; cbn [app span_dig].
  - rewrite Hc. reflexivity.
  - inversion F as [|? ? Hd Hds]; subst. rewrite (isdig_b d Hd), (IH c r Hds Hc). reflexivity.
Qed.
Lemma dec_one_digit es : 0 <= es <= 9 -> dec_of_nat es = [48 + es].
Proof.
  intros H. assert (E : exists k, (k < 10)%nat /\ es = Z.of_nat k) by (exists (Z.to_nat es); lia).
  destruct E as (k & Hk & ->). do 10 (destruct k as [|k]; [reflexivity|]). lia.
Qed.
Lemma hexit_props d : 0 <= d < 16 -> iswordb (hexit d) = true /\ Z.eqb (hexit d) 112 = false.
Proof.
  intros H. assert (E : exists k, (k < 16)%nat /\ d = Z.of_nat k) by (exists (Z.to_nat d); lia).
  destruct E as (k & Hk & ->). do 16 (destruct k as [|k]; [split; reflexivity|]). lia.
Qed.
Lemma hex_fixed_chars : forall (k : nat) a, Forall (fun c => iswordb c = true /\ Z.eqb c 112 = false) (hex_fixed k a).
Proof.
  induction k as [|k IH]; intros a; cbn [hex_fixed]; [constructor|].
  apply Forall_app; split; [apply IH|]. constructor; [|constructor].
  apply hexit_props. apply Z.mod_pos_bound. lia.
Qed.
Lemma take_until_app l : Forall (fun c => Z.eqb c 112 = false) l -> take_until 112 (l ++ [112]) = l.
Proof.
  induction l as [|c l IH]; intros F; cbn [app take_until]; [reflexivity|].
  inversion F as [|? ? Hc Hl]; subst. rewrite Hc, (IH Hl). reflexivity.
Qed.
Lemma hex_run_all : forall l acc v seen, parse_digits 16 l acc = Some v ->
  hex_run l acc seen = (v, match l with [] => seen | _ => true end).
Proof.
  induction l as [|c l IH]; intros acc v seen H; cbn [parse_digits hex_run] in *.
  - injection H as ->. reflexivity.
  - destruct (digit_val c) as [d|]; [|discriminate]. destruct (Z.ltb d 16); [|discriminate].
    rewrite (IH _ _ true H). destruct l; reflexivity.
Qed.
Lemma hex_fixed_nonempty k a : hex_fixed (S k) a <> [].
Proof. cbn [hex_fixed]. intro H. apply app_eq_nil in H. destruct H as [_ H]. discriminate. Qed.

Theorem posit_parse_hex_format n es a : 1 <= n <= 64 -> 0 <= es <= 9 -> 0 <= a < 2 ^ n ->
  posit_parse n (posit_hex_string n es a) = Some a.
Proof.
  intros Hn Hes Ha. unfold posit_hex_string, posit_parse, posit_regex_fields.
  destruct (dec_of_nat_spec n ltac:(lia)) as (ds & Eds & Fds & Vds & NEds).
  pose proof (parse_dec_of_nat n ltac:(lia)) as Pn. rewrite Eds in *.
  rewrite (dec_one_digit es Hes).
  set (k := Z.to_nat (if Z.ltb n 4 then 1 else (n + 3) / 4)).
  assert (Hk : (1 <= k)%nat /\ n <= 4 * Z.of_nat k).
  { unfold k. destruct (Z.ltb_spec n 4); [split; [cbn; lia | change (Z.of_nat (Z.to_nat 1)) with 1; lia]|].
    pose proof (Z.div_mod (n + 3) 4 ltac:(lia)). pose proof (Z.mod_pos_bound (n + 3) 4 ltac:(lia)).
    split; [lia | rewrite Z2Nat.id by lia; lia]. }
  destruct Hk as [Hk1 Hk4].
  assert (Ha16 : 0 <= a < 16 ^ Z.of_nat k).
  { split; [lia|]. eapply Z.lt_le_trans; [apply Ha|]. replace 16 with (2 ^ 4) by reflexivity.
    rewrite <- Z.pow_mul_r by lia. apply Z.pow_le_mono_r; lia. }
  cbn [app]. rewrite span_dig_app by (try exact Fds; reflexivity).
  destruct ds as [|d0 ds']; [congruence|].
  set (H := hex_fixed k a) in *.
  pose proof (hex_fixed_chars k a) as FH. fold H in FH.
  assert (Hw : isdigb (48 + es) = true) by (unfold isdigb; apply andb_true_iff; split; apply Z.leb_le; lia).
  rewrite Hw. cbn [Z.eqb Pos.eqb orb andb forallb].
  assert (Hall : forallb iswordb (H ++ [112]) = true).
  { apply forallb_forall. intros c Hc. apply in_app_or in Hc. destruct Hc as [Hc | [<- | []]]; [|reflexivity].
    rewrite Forall_forall in FH. apply (FH c Hc). }
  change (iswordb 48) with true. change (iswordb 120) with true. cbn [andb]. rewrite Hall.
  rewrite Pn. cbn [take_until Z.eqb Pos.eqb].
  rewrite take_until_app by (eapply Forall_impl; [|exact FH]; intros c [_ Hc]; exact Hc).
  unfold stream_hex. rewrite (hex_run_all H 0 a false) by (unfold H; rewrite hex_fixed_parse by exact Ha16; f_equal; lia).
  assert (HNE : H <> []) by (unfold H; destruct k as [|k']; [lia | apply hex_fixed_nonempty]).
  destruct H as [|h0 H']; [congruence|].
  assert (A64 : a <? 2 ^ 64 = true).
  { apply Z.ltb_lt. eapply Z.lt_le_trans; [apply Ha|]. apply Z.pow_le_mono_r; lia. }
  rewrite A64. rewrite Z.ltb_irrefl. f_equal. apply Z.mod_small. exact Ha.
Qed.
