(* C19 -- exception mode changes error signalling only, never a computed value.
   The substance of this property is relational between two builds of the C++ (see DESIGN.md): the
   correspondence compares them on identical operands.  What the model contributes is the statement of
   *which* operands signal an error in quiet mode, proved against the operation models: the quiet result
   is the error value (NaR / NaN) exactly in those cases. *)
From Coq Require Import ZArith QArith.
From UV Require Import PositSpec Num PositModel PositProps LnsModel LnsProps.
Local Open Scope Z_scope.

(* posit: quiet mode signals (returns NaR) for a NaR operand, division by zero or by NaR ... *)
Theorem C19_posit_error_operands_give_nar : forall n es a b,
  pval n es a = None \/ pval n es b = None \/ (exists y, pval n es b = Some y /\ (y == 0)%Q) -> pdiv n es a b = nar n.
Proof. exact div_nar. Qed.
Print Assumptions C19_posit_error_operands_give_nar.
Theorem C19_posit_nar_operand_gives_nar : forall n es (f : Q -> Q -> Q) a b,
  pval n es a = None \/ pval n es b = None -> lift2 n es f a b = nar n.
Proof. exact nar_propagates. Qed.
Print Assumptions C19_posit_nar_operand_gives_nar.
(* ... and for no other operands: a result of finite operands with a non-zero divisor is never NaR *)
Theorem C19_posit_no_other_error : forall n es, 2 <= n -> 0 <= es -> forall x, ~ (x == 0)%Q ->
  pround n es x <> 0 /\ pround n es x <> nar n /\ 0 < pround n es x < 2^n.
Proof. exact pround_nonzero_not_nar. Qed.
Print Assumptions C19_posit_no_other_error.
(* lns: division by zero is the error condition (NaN), zero dividend is not *)
Theorem C19_lns_division_by_zero : forall n sat a b,
  (l_decode n a = LNaN \/ l_decode n b = LNaN -> l_div n sat a b = l_encode n LNaN) /\
  (l_decode n a <> LNaN -> l_decode n b = LZero -> l_div n sat a b = l_encode n LNaN) /\
  (l_decode n a = LZero -> (exists s E, l_decode n b = LVal s E) -> l_div n sat a b = l_encode n LZero).
Proof. exact l_div_specials. Qed.
Print Assumptions C19_lns_division_by_zero.
