(* C19 -- exception mode changes error signalling only, never a computed value.
   The substance of this property is relational between two builds of the C++ (see DESIGN.md): the
   correspondence compares them on identical operands.  What the model contributes is the statement of
   *which* operands signal an error in quiet mode, proved against the operation models: the quiet result
   is the error value (NaR / NaN) exactly in those cases. *)
From Coq Require Import ZArith QArith.
From UV Require Import PositSpec Num PositModel PositProps LnsModel LnsProps.
Local Open Scope Z_scope.

(* posit: quiet mode signals (returns NaR) for a NaR operand, division by zero or by NaR ... *)
Theorem C19_posit_error_operands_give_nar : forall n es a b,
  pval n es a = None \/ pval n es b = None \/ (exists y, pval n es b = Some y /\ (y == 0)%Q) -> pdiv n es a b = nar n.
Proof. exact div_nar. Qed.
Print Assumptions C19_posit_error_operands_give_nar.
Theorem C19_posit_nar_operand_gives_nar : forall n es (f : Q -> Q -> Q) a b,
  pval n es a = None \/ pval n es b = None -> lift2 n es f a b = nar n.
Proof. exact nar_propagates. Qed.
Print Assumptions C19_posit_nar_operand_gives_nar.
(* ... and for no other operands: a result of finite operands with a non-zero divisor is never NaR *)
Theorem C19_posit_no_other_error : forall n es, 2 <= n -> 0 <= es -> forall x, ~ (x == 0)%Q ->
  pround n es x <> 0 /\ pround n es x <> nar n /\ 0 < pround n es x < 2^n.
Proof. exact pround_nonzero_not_nar. Qed.
Print Assumptions C19_posit_no_other_error.
(* lns: division by zero is the error condition (NaN), zero dividend is not *)
Theorem C19_lns_division_by_zero : forall n sat a b,
  (l_decode n a = LNaN \/ l_decode n b = LNaN -> l_div n sat a b = l_encode n LNaN) /\
  (l_decode n a <> LNaN -> l_decode n b = LZero -> l_div n sat a b = l_encode n LNaN) /\
  (l_decode n a = LZero -> (exists s E, l_decode n b = LVal s E) -> l_div n sat a b = l_encode n LZero).
Proof. exact l_div_specials. Qed.
Print Assumptions C19_lns_division_by_zero.

(* cfloat: quiet mode signals division by zero with an infinity (0/0 and NaN operands with NaN); a finite non-zero divisor never does;
   integer / fixpnt / elastic types have no error value at all: division by a non-zero divisor is total in the models (C07, C08, C14),
   so the only operand class the throwing builds may treat differently is "divisor is zero" *)
From UV Require Import CfloatModel CfloatProps IntegerModel IntProps.
Theorem C19_cfloat_division_error_operands :
  (forall s t p q, Qeq_bool p 0 = true -> Qeq_bool q 0 = true -> num_div (Fin s p) (Fin t q) = NaN) /\
  (forall s t p q, Qeq_bool p 0 = false -> Qeq_bool q 0 = true -> num_div (Fin s p) (Fin t q) = Inf (xorb s t)) /\
  (forall s t p q, Qeq_bool q 0 = false -> num_div (Fin s p) (Fin t q) = Fin (xorb s t) (Qred (p / q))) /\
  (forall x, num_div NaN x = NaN /\ num_div x NaN = NaN).
Proof.
  destruct num_specials as (_ & _ & Z0 & _ & Zi & Nn).
  split; [exact Z0|]. split; [exact Zi|]. split.
  - intros s t p q H. exact (proj1 (proj2 (num_zero_sign s t p q)) H).
  - intro x. destruct (Nn x) as (_ & _ & _ & _ & A & B). split; assumption.
Qed.
Print Assumptions C19_cfloat_division_error_operands.
Theorem C19_integer_division_total : forall n, 1 <= n -> forall a b, sgn n b <> 0 ->
  sgn n a = sgn n b * Z.quot (sgn n a) (sgn n b) + Z.rem (sgn n a) (sgn n b).
Proof. intros n Hn a b Hb. apply Z.quot_rem'. Qed.
Print Assumptions C19_integer_division_total.
