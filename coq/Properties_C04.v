(* C04 -- read-back to native types is exact and round-trips to the same encoding.
   Statements only.  The read-back value is the decoder of each model; the round trip is
   "rounding the decoded value gives the encoding back". *)
From Coq Require Import ZArith QArith.
From UV Require Import PositSpec Num PositModel PositProps FixpntModel IntegerModel IntProps CfloatSpec CfloatModel CfloatProps
  ArealModel ArealProps.
Local Open Scope Z_scope.

Theorem C04_posit_roundtrip : forall n es, 2 <= n -> 0 <= es -> forall a x,
  0 <= a < 2^n -> pval n es a = Some x -> pround n es x = a.
Proof. exact pround_pval. Qed.
Print Assumptions C04_posit_roundtrip.
Theorem C04_fixpnt_roundtrip : forall n, 1 <= n -> forall r sat a, 0 <= r -> 0 <= a < 2^n ->
  fx_of_Q n r sat (fx_val n r a) = a.
Proof. exact fx_roundtrip. Qed.
Print Assumptions C04_fixpnt_roundtrip.
Theorem C04_cfloat_roundtrip : forall c, 1 <= c_es c -> c_es c + 1 < c_n c -> forall m,
  c_lo c <= m <= c_top c -> 0 < m -> cf_round_mag c (cf_val (c_n c) (c_es c) m) = m.
Proof. exact cf_round_mag_exact. Qed.
Print Assumptions C04_cfloat_roundtrip.
Theorem C04_integer_roundtrip : forall n, 1 <= n -> forall a, 0 <= a < 2^n -> wrap n (sgn n a) = a.
Proof. intros n Hn a Ha. rewrite (wrap_sgn n Hn). exact (wrap_id n a Ha). Qed.
Print Assumptions C04_integer_roundtrip.
(* areal: converting the lower bound of an encoding back yields an exact encoding of that value *)
Theorem C04_areal_lower_bound_exact : forall n es, 1 <= es -> es + 2 < n -> forall s q, (0 <= q)%Q ->
  a_encloses n es q s (a_encode n es (Fin s q)) = true.
Proof. exact areal_encloses. Qed.
Print Assumptions C04_areal_lower_bound_exact.
(* conversion to a native integer truncates toward zero *)
Theorem C04_truncation : forall x : Q, Qtrunc x = Z.quot (Qnum x) (Zpos (Qden x)).
Proof. reflexivity. Qed.
Print Assumptions C04_truncation.

Example C04_witness : f64_encode (p_to_num 8 1 0x48) = 0x3ff8000000000000
  /\ f64_encode (p_to_num 8 0 0xc0) = 0xbff0000000000000 /\ f32_encode (Fin true (1#4)) = 0xbe800000
  /\ p_to_int 8 1 0x4c = Some 1 /\ f64_decode 0x7ff0000000000000 = Inf false.
Proof. vm_compute. repeat split; reflexivity. Qed.

(* ---- generated on every run from include/universal/native/subnormal.hpp (tools/gen_tables.py -> Tables.v): the scale tables that
   cfloat / areal to_native multiply subnormal fractions with are, entry by entry, the model's subnormal scale 2^(1 - bias) =
   2^(2 - 2^(es-1)) (checked by the kernel for every es the tables define: 1..11 for the double table, 1..20 for the shift table) ---- *)
From Coq Require Import List Bool. Import ListNotations.
From UV Require Import Tables.
Definition subnormal_tables_ok : bool :=
  forallb (fun es => match nth_error tbl_subnormal_exponent_log2 (Z.to_nat es) with
                     | Some (Some v) => Z.eqb v (1 - CfloatSpec.bias es) | _ => false end)
          [1; 2; 3; 4; 5; 6; 7; 8; 9; 10; 11] &&
  forallb (fun es => match nth_error tbl_subnormal_reciprocal_shift (Z.to_nat es) with
                     | Some v => Z.eqb (- v) (1 - CfloatSpec.bias es) | _ => false end)
          [1; 2; 3; 4; 5; 6; 7; 8; 9; 10; 11; 12; 13; 14; 15; 16; 17; 18; 19; 20].
Theorem C04_subnormal_scale_tables_match_model : subnormal_tables_ok = true.
Proof. vm_compute. reflexivity. Qed.
Print Assumptions C04_subnormal_scale_tables_match_model.
