(* C13: the operation sequences of include/universal/numerics/error_free_ops.hpp, written literally (same association, same operand
   order) over rounded real arithmetic in the binary64 format FLT(emin = -1074, prec = 53), round to nearest even.  The exactness theorems
   are instances of Flocq's Pff2Flocq (TwoSum_correct, Fast2Sum_correct, Veltkamp_tail, Dekker).  FLT has no largest exponent: these
   theorems say nothing about overflow, which is why the property bounds the inputs. *)
From Coq Require Import ZArith Reals Lia Lra.
From Flocq Require Import Core BinarySingleNaN Pff2Flocq.
From UV Require Import TS.
Local Open Scope Z_scope.

#[export] Instance p53 : Prec_gt_0 53 := eq_refl.
Definition fmt64 := generic_format radix2 (FLT_exp (-1074) 53).
Definition RN64 := round radix2 (FLT_exp (-1074) 53) (Znearest (fun n => negb (Z.even n))).

Lemma RN64_opp x : RN64 (- x) = (- RN64 x)%R.
Proof. exact (round_N_opp_sym (-1074) 53 (fun n => negb (Z.even n)) choice_sym x). Qed.

(* s = a + b; bb = s - a; r = (a - (s - bb)) + (b - bb) *)
Definition two_sum_s (a b : R) : R := RN64 (a + b).
Definition two_sum_r (a b : R) : R :=
  let s := two_sum_s a b in let bb := RN64 (s - a) in RN64 (RN64 (a - RN64 (s - bb)) + RN64 (b - bb)).
Lemma two_sum_R a b : fmt64 a -> fmt64 b -> (two_sum_s a b + two_sum_r a b = a + b)%R.
Proof.
  intros Fa Fb. unfold two_sum_r, two_sum_s. cbv zeta.
  exact (TwoSum_correct (-1074) 53 (fun n => negb (Z.even n)) ltac:(lia) ltac:(lia) choice_sym a b Fa Fb).
Qed.

(* s = a - b; bb = s - a; r = (a - (s - bb)) - (b + bb) *)
Definition two_diff_s (a b : R) : R := RN64 (a - b).
Definition two_diff_r (a b : R) : R :=
  let s := two_diff_s a b in let bb := RN64 (s - a) in RN64 (RN64 (a - RN64 (s - bb)) - RN64 (b + bb)).
Lemma two_diff_R a b : fmt64 a -> fmt64 b -> (two_diff_s a b + two_diff_r a b = a - b)%R.
Proof.
  intros Fa Fb. unfold two_diff_r, two_diff_s. cbv zeta.
  assert (Fnb : fmt64 (- b)%R) by (apply generic_format_opp; exact Fb).
  generalize (two_sum_R a (- b)%R Fa Fnb). unfold two_sum_r, two_sum_s. cbv zeta.
  replace (a + - b)%R with (a - b)%R by ring.
  replace (- b - RN64 (RN64 (a - b) - a))%R with (- (b + RN64 (RN64 (a - b) - a)))%R by ring.
  rewrite RN64_opp. intro H. exact H.
Qed.

(* s = a + b; r = b - (s - a)      (requires |a| >= |b|) *)
Definition quick_two_sum_s (a b : R) : R := RN64 (a + b).
Definition quick_two_sum_r (a b : R) : R := RN64 (b - RN64 (quick_two_sum_s a b - a)).
Lemma quick_two_sum_R a b : fmt64 a -> fmt64 b -> (Rabs b <= Rabs a)%R -> (quick_two_sum_s a b + quick_two_sum_r a b = a + b)%R.
Proof.
  intros Fa Fb Hab. unfold quick_two_sum_r, quick_two_sum_s.
  generalize (Fast2Sum_correct (-1074) 53 (fun n => negb (Z.even n)) ltac:(lia) ltac:(lia) choice_sym a b Fa Fb Hab).
  fold RN64. intro H.
  replace (b - RN64 (RN64 (a + b) - a))%R with (b + RN64 (a - RN64 (a + b)))%R; [exact H|].
  replace (RN64 (a + b) - a)%R with (- (a - RN64 (a + b)))%R by ring. rewrite RN64_opp. ring.
Qed.

(* temp = SPLITTER * a; hi = temp - (temp - a); lo = a - hi     (SPLITTER = 2^27 + 1; the re-scaled branch above 2^996 is not modelled) *)
Definition splitter : R := (bpow radix2 27 + 1)%R.
Definition split_hi (a : R) : R := let temp := RN64 (splitter * a) in RN64 (temp - RN64 (temp - a)).
Definition split_lo (a : R) : R := RN64 (a - split_hi a).
Lemma split_hi_flocq a : split_hi a = RN64 (RN64 (a - RN64 (a * splitter)) + RN64 (a * splitter)).
Proof.
  unfold split_hi. cbv zeta. replace (splitter * a)%R with (a * splitter)%R by ring.
  set (t := RN64 (a * splitter)). f_equal.
  replace (a - t)%R with (- (t - a))%R by ring. rewrite RN64_opp. ring.
Qed.
Lemma split_R a : fmt64 a -> (a = split_hi a + split_lo a)%R /\ generic_format radix2 (FLT_exp (-1074) 27) (split_lo a).
Proof.
  intro Fa. unfold split_lo. rewrite split_hi_flocq. unfold splitter.
  exact (Veltkamp_tail radix2 (-1074) 53 (fun n => negb (Z.even n)) 27 ltac:(lia) ltac:(lia) ltac:(lia) ltac:(lia) a Fa).
Qed.

(* p = a * b; r = ((a_hi * b_hi - p) + a_hi * b_lo + a_lo * b_hi) + a_lo * b_lo *)
Definition two_prod_p (a b : R) : R := RN64 (a * b).
Definition two_prod_r (a b : R) : R :=
  let p := two_prod_p a b in
  let ah := split_hi a in let al := split_lo a in let bh := split_hi b in let bl := split_lo b in
  RN64 (RN64 (RN64 (RN64 (RN64 (ah * bh) - p) + RN64 (ah * bl)) + RN64 (al * bh)) + RN64 (al * bl)).
Lemma two_prod_R a b : fmt64 a -> fmt64 b ->
  ((a * b = 0)%R \/ (bpow radix2 (-969) <= Rabs (a * b))%R) -> (a * b = two_prod_p a b + two_prod_r a b)%R.
Proof.
  intros Fa Fb H. unfold two_prod_r, two_prod_p, split_lo. cbv zeta. rewrite !split_hi_flocq. unfold splitter.
  match goal with |- context [ (RN64 (?u * ?v) - RN64 (a * b))%R ] =>
    replace (RN64 (u * v) - RN64 (a * b))%R with (- RN64 (a * b) + RN64 (u * v))%R by ring end.
  exact (proj1 (Dekker radix2 (-1074) 53 (fun n => negb (Z.even n)) ltac:(lia) ltac:(lia) a b Fa Fb (or_introl eq_refl)) H).
Qed.

(* three_sum: u = two_sum(x, y, v); r0 = two_sum(z, u, w); r1 = two_sum(v, w, r2) *)
Lemma RN64_format x : fmt64 (RN64 x).
Proof. unfold fmt64, RN64. apply generic_format_round; auto with typeclass_instances. Qed.
Definition three_sum_out (x y z : R) : R * R * R :=
  let u := two_sum_s x y in let v := two_sum_r x y in
  let r0 := two_sum_s z u in let w := two_sum_r z u in
  (r0, two_sum_s v w, two_sum_r v w).
Lemma three_sum_R x y z : fmt64 x -> fmt64 y -> fmt64 z ->
  let '(r0, r1, r2) := three_sum_out x y z in (r0 + r1 + r2 = x + y + z)%R.
Proof.
  intros Fx Fy Fz. unfold three_sum_out. cbv zeta.
  assert (Fu : fmt64 (two_sum_s x y)) by apply RN64_format.
  assert (Fv : fmt64 (two_sum_r x y)) by (unfold two_sum_r; cbv zeta; apply RN64_format).
  assert (Fw : fmt64 (two_sum_r z (two_sum_s x y))) by (unfold two_sum_r; cbv zeta; apply RN64_format).
  assert (H1 := two_sum_R x y Fx Fy). assert (H2 := two_sum_R z _ Fz Fu). assert (H3 := two_sum_R _ _ Fv Fw).
  lra.
Qed.
