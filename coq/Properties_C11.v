(* C11 -- all implementations of a posit configuration agree bit-for-bit.
   The table-driven specialisations are *data*: Tables.v is regenerated from the headers on every run
   (tools/gen_tables.py) and the theorems below re-check every entry against the model with the kernel. *)
From Coq Require Import ZArith QArith List Bool.
From UV Require Import PositMono2 PositSpec Num PositModel PositFast Tables TableCheck.
Local Open Scope Z_scope.

Theorem C11_posit_2_0_tables :
  tbl_binary_ok 2 (padd_f 2 0) tbl_posit_2_0_addition_lookup && tbl_binary_ok 2 (psub_f 2 0) tbl_posit_2_0_subtraction_lookup &&
  tbl_binary_ok 2 (pmul_f 2 0) tbl_posit_2_0_multiplication_lookup && tbl_binary_ok 2 (pdiv_f 2 0) tbl_posit_2_0_division_lookup &&
  tbl_unary_ok 4 (precip_f 2 0) tbl_posit_2_0_reciprocal_lookup = true.
Proof. vm_compute. reflexivity. Qed.
Theorem C11_posit_3_0_tables :
  tbl_binary_ok 3 (padd_f 3 0) tbl_posit_3_0_addition_lookup && tbl_binary_ok 3 (psub_f 3 0) tbl_posit_3_0_subtraction_lookup &&
  tbl_binary_ok 3 (pmul_f 3 0) tbl_posit_3_0_multiplication_lookup && tbl_binary_ok 3 (pdiv_f 3 0) tbl_posit_3_0_division_lookup &&
  tbl_unary_ok 8 (precip_f 3 0) tbl_posit_3_0_reciprocal_lookup &&
  tbl_binary_ok 3 (fun a b => if plt 3 0 a b then 1 else 0) tbl_posit_3_0_less_than_lookup = true.
Proof. vm_compute. reflexivity. Qed.
Theorem C11_posit_4_0_tables :
  tbl_binary_ok 4 (padd_f 4 0) tbl_posit_4_0_addition_lookup && tbl_binary_ok 4 (psub_f 4 0) tbl_posit_4_0_subtraction_lookup &&
  tbl_binary_ok 4 (pmul_f 4 0) tbl_posit_4_0_multiplication_lookup && tbl_binary_ok 4 (pdiv_f 4 0) tbl_posit_4_0_division_lookup &&
  tbl_unary_ok 16 (precip_f 4 0) tbl_posit_4_0_reciprocal_lookup = true.
Proof. vm_compute. reflexivity. Qed.
(* known finding KF-C11-1: the posit<3,1> tables do not implement posit<3,1>; the witness is the first
   differing entry (a, b, table value, model value).  This theorem must be deleted when the tables are repaired. *)
Theorem C11_posit_3_1_tables_refuted :
  tbl_binary_ok 3 (padd_f 3 1) tbl_posit_3_1_addition_lookup = false /\
  first_bad 3 (padd_f 3 1) tbl_posit_3_1_addition_lookup 64 0 = Some (0, 2, 0, 2).
Proof. vm_compute. split; reflexivity. Qed.
(* the fast evaluation used above is the specification (all n, es) *)
Theorem C11_fast_model_is_spec : forall n es, 2 <= n -> 0 <= es -> forall f a b, lift2_f n es f a b = lift2 n es f a b.
Proof. exact lift2_f_eq. Qed.
Print Assumptions C11_posit_2_0_tables.
Print Assumptions C11_posit_3_0_tables.
Print Assumptions C11_posit_4_0_tables.
Print Assumptions C11_posit_3_1_tables_refuted.
Print Assumptions C11_fast_model_is_spec.
