(* Executable model of fixpnt<n,r,Modulo|Saturate>: raw two's-complement integers
   scaled by 2^-r.  Encodings are Z in [0,2^n). *)
From Coq Require Import ZArith QArith Lia Bool List.
From UV Require Import Num Ops Verdict NativeJudge.
Import ListNotations.
Local Open Scope Z_scope.

(* round-to-nearest, ties-to-even of num/den for den > 0 *)
Definition rne_div (num den : Z) : Z :=
  let q := num / den in let r := num mod den in
  match Z.compare (2 * r) den with
  | Lt => q
  | Gt => q + 1
  | Eq => if Z.even q then q else q + 1
  end.

Definition fx_min (n : Z) : Z := - 2^(n-1).
Definition fx_max (n : Z) : Z := 2^(n-1) - 1.
Definition clamp (n x : Z) : Z := Z.max (fx_min n) (Z.min (fx_max n) x).
(* range rule: sat = true clamps, sat = false wraps; result as an n-bit pattern *)
Definition fx_fit (n : Z) (sat : bool) (x : Z) : Z := wrap n (if sat then clamp n x else x).

Definition fx_add n sat a b := fx_fit n sat (sgn n a + sgn n b).
Definition fx_sub n sat a b := fx_fit n sat (sgn n a - sgn n b).
Definition fx_mul n r sat a b := fx_fit n sat (rne_div (sgn n a * sgn n b) (2^r)).
(* b <> 0 *)
Definition fx_div n r sat a b :=
  let x := sgn n a in let y := sgn n b in
  fx_fit n sat (rne_div (x * 2^r * Z.sgn y) (Z.abs y)).
Definition fx_neg n sat a := fx_fit n sat (- sgn n a).
Definition fx_inc n sat a := fx_fit n sat (sgn n a + 1).
Definition fx_dec n sat a := fx_fit n sat (sgn n a - 1).
Definition fx_lt n a b := Z.ltb (sgn n a) (sgn n b).
Definition fx_val n r a : Q := (inject_Z (sgn n a) / inject_Z (2^r))%Q.

(* conversion from an exact rational: nearest multiple of 2^-r, ties to even, then the range rule *)
Definition fx_of_Q n r sat (x : Q) : Z :=
  fx_fit n sat (rne_div (Qnum x * 2^r) (Zpos (Qden x))).

Definition judge_fixpnt (cfg : list Z) (op : Z) (args res : list Z) : verdict :=
  let n := nth0 cfg 0 in let r := nth0 cfg 1 in let sat := Z.eqb (nth0 cfg 2) 1 in
  let a := nth0 args 0 in let b := nth0 args 1 in
  let exact (e : list Z) (nt : bool) := mkV (list_eqb e res) e nt in
  let ovf (x : Z) := negb (Z.eqb (clamp n x) x) in
  if Z.eqb op OP_add then exact [fx_add n sat a b] (ovf (sgn n a + sgn n b)) else
  if Z.eqb op OP_sub then exact [fx_sub n sat a b] (ovf (sgn n a - sgn n b)) else
  if Z.eqb op OP_mul then exact [fx_mul n r sat a b]
       (ovf (rne_div (sgn n a * sgn n b) (2^r)) || negb (Z.eqb ((sgn n a * sgn n b) mod 2^r) 0)) else
  if Z.eqb op OP_div then
    (if Z.eqb (sgn n b) 0 then mkV true res false
     else exact [fx_div n r sat a b] (negb (Z.eqb ((sgn n a * 2^r) mod (Z.abs (sgn n b))) 0))) else
  if Z.eqb op OP_neg then
    (* the negation of the most negative value is not representable: either wrap or clamp is accepted *)
    (if Z.eqb (sgn n a) (fx_min n)
     then mkV (list_eqb res [wrap n (fx_min n)] || list_eqb res [wrap n (fx_max n)]) [fx_neg n sat a] true
     else exact [fx_neg n sat a] true) else
  if Z.eqb op OP_inc then (if Z.eqb (sgn n a) (fx_max n) then mkV true res false else exact [fx_inc n sat a] true) else
  if Z.eqb op OP_dec then (if Z.eqb (sgn n a) (fx_min n) then mkV true res false else exact [fx_dec n sat a] true) else
  if Z.eqb op OP_lt then exact [b2z (fx_lt n a b)] true else
  if Z.eqb op OP_gt then exact [b2z (fx_lt n b a)] true else
  if Z.eqb op OP_le then exact [b2z (negb (fx_lt n b a))] true else
  if Z.eqb op OP_ge then exact [b2z (negb (fx_lt n a b))] true else
  if Z.eqb op OP_eq then exact [b2z (Z.eqb (sgn n a) (sgn n b))] true else
  if Z.eqb op OP_ne then exact [b2z (negb (Z.eqb (sgn n a) (sgn n b)))] true else
  if Z.eqb op OP_from_f64 then
    match f64_decode a with Fin s q => exact [fx_of_Q n r sat (if s then - q else q)%Q] true | _ => mkV true res false end else
  if Z.eqb op OP_from_f32 then
    match f32_decode a with Fin s q => exact [fx_of_Q n r sat (if s then - q else q)%Q] true | _ => mkV true res false end else
  if Z.eqb op OP_from_int then exact [fx_of_Q n r sat (inject_Z (int_decode true a b))] true else
  if Z.eqb op OP_from_uint then exact [fx_of_Q n r sat (inject_Z (int_decode false a b))] true else
  if Z.eqb op OP_to_f64 then judge_to_f64 (num_of_Q (Qred (fx_val n r a))) res else
  if Z.eqb op OP_to_f32 then judge_to_f32 (num_of_Q (Qred (fx_val n r a))) res else
  if Z.eqb op OP_conv then exact [fx_of_Q (nth0 cfg 4) (nth0 cfg 5) (Z.eqb (nth0 cfg 6) 1) (Qred (fx_val n r a))] true else
  if Z.eqb op OP_to_f64_rt then (if Z.leb n 53 then exact [wrap n a] true else mkV true res false) else
  mkV false [] false.
