(* C08 -- integer<nbits> is the two's-complement ring mod 2^nbits, division truncates.
   Statements only.  Model: IntegerModel.v. *)
From Coq Require Import ZArith.
From UV Require Import Num IntegerModel IntProps.
Local Open Scope Z_scope.

Theorem C08_add_mod : forall n, 1 <= n -> forall a b, i_add n a b = (a + b) mod 2^n.
Proof. exact int_add_is_mod. Qed.
Print Assumptions C08_add_mod.
Theorem C08_sub_mod : forall n, 1 <= n -> forall a b, i_sub n a b = (a - b) mod 2^n.
Proof. exact int_sub_is_mod. Qed.
Print Assumptions C08_sub_mod.
Theorem C08_mul_mod : forall n, 1 <= n -> forall a b, i_mul n a b = (a * b) mod 2^n.
Proof. exact int_mul_is_mod. Qed.
Print Assumptions C08_mul_mod.
Theorem C08_neg_mod : forall n, 1 <= n -> forall a, i_neg n a = (- a) mod 2^n.
Proof. exact int_neg_is_mod. Qed.
Print Assumptions C08_neg_mod.
Theorem C08_ring_laws : forall n, 1 <= n -> forall a b c,
  i_add n a b = i_add n b a /\ i_add n (i_add n a b) c = i_add n a (i_add n b c) /\
  i_mul n a b = i_mul n b a /\ i_mul n (i_mul n a b) c = i_mul n a (i_mul n b c) /\
  i_mul n a (i_add n b c) = i_add n (i_mul n a b) (i_mul n a c) /\ i_add n a (i_neg n a) = 0.
Proof.
  intros n Hn a b c.
  exact (conj (int_add_comm n Hn a b) (conj (int_add_assoc n Hn a b c) (conj (int_mul_comm n Hn a b)
        (conj (int_mul_assoc n Hn a b c) (conj (int_distr n Hn a b c) (int_add_neg n Hn a)))))).
Qed.
Print Assumptions C08_ring_laws.
Theorem C08_division_truncates : forall n, 1 <= n -> forall a b, sgn n b <> 0 ->
  sgn n a = Z.quot (sgn n a) (sgn n b) * sgn n b + Z.rem (sgn n a) (sgn n b) /\
  Z.abs (Z.rem (sgn n a) (sgn n b)) < Z.abs (sgn n b) /\
  (0 <= sgn n a -> 0 <= Z.rem (sgn n a) (sgn n b)) /\ (sgn n a <= 0 -> Z.rem (sgn n a) (sgn n b) <= 0).
Proof. intros n _. exact (int_div_rem_exact n). Qed.
Print Assumptions C08_division_truncates.
Theorem C08_div_rem_identity : forall n, 1 <= n -> forall a b, sgn n b <> 0 ->
  i_add n (i_mul n (i_div n a b) b) (i_rem n a b) = wrap n a.
Proof. exact int_div_rem_identity. Qed.
Print Assumptions C08_div_rem_identity.
Theorem C08_shift_left : forall n, 1 <= n -> forall a k, 0 <= k -> i_shl n a k = (a * 2^k) mod 2^n.
Proof. exact int_shl_is_mul. Qed.
Print Assumptions C08_shift_left.
Theorem C08_shift_right : forall n, 1 <= n -> forall a k, 0 <= k -> sgn n (i_shr n a k) = sgn n a / 2^k.
Proof. exact int_shr_is_floor. Qed.
Print Assumptions C08_shift_right.
Theorem C08_shift_right_saturates : forall n, 1 <= n -> forall a k, n <= k ->
  sgn n (i_shr n a k) = if Z.ltb (sgn n a) 0 then -1 else 0.
Proof. exact int_shr_saturates. Qed.
Print Assumptions C08_shift_right_saturates.
Theorem C08_widening_sign_extends : forall n m a, 1 <= n -> n <= m -> sgn m (i_conv n m a) = sgn n a.
Proof. exact int_widen. Qed.
Print Assumptions C08_widening_sign_extends.
Theorem C08_narrowing_when_fits : forall n m a, 1 <= m -> - 2^(m-1) <= sgn n a < 2^(m-1) -> sgn m (i_conv n m a) = sgn n a.
Proof. exact int_narrow_fits. Qed.
Print Assumptions C08_narrowing_when_fits.

Example C08_witness : i_div 8 0x80 0xff = 0x80 /\ i_rem 8 0xf9 0x02 = 0xff /\ i_shr 8 0x80 9 = 0xff /\ i_mul 8 0x10 0x10 = 0
  /\ i_conv 8 16 0x80 = 0xff80 /\ i_shl 8 0x81 1 = 0x02.
Proof. vm_compute. repeat split; reflexivity. Qed.
