(* Elastic types (C14): einteger / edecimal are the integers, erational the rationals in lowest terms with a
   positive denominator and a single zero. *)
From Coq Require Import ZArith QArith Lia Bool List.
From UV Require Import Num Ops Verdict TextModel.
Import ListNotations.
Local Open Scope Z_scope.

Definition sm (s m : Z) : Z := if Z.eqb s 1 then - m else m.

Definition el_op (op a b : Z) : option Z :=
  if Z.eqb op OP_add then Some (a + b) else
  if Z.eqb op OP_sub then Some (a - b) else
  if Z.eqb op OP_mul then Some (a * b) else
  if Z.eqb op OP_div then (if Z.eqb b 0 then None else Some (Z.quot a b)) else
  if Z.eqb op OP_rem then (if Z.eqb b 0 then None else Some (Z.rem a b)) else
  if Z.eqb op OP_neg then Some (- a) else
  if Z.eqb op OP_lt then Some (b2z (Z.ltb a b)) else
  if Z.eqb op OP_le then Some (b2z (Z.leb a b)) else
  if Z.eqb op OP_gt then Some (b2z (Z.ltb b a)) else
  if Z.eqb op OP_ge then Some (b2z (Z.leb b a)) else
  if Z.eqb op OP_eq then Some (b2z (Z.eqb a b)) else
  if Z.eqb op OP_ne then Some (b2z (negb (Z.eqb a b))) else
  None.
Definition is_cmp (op : Z) : bool := Z.leb OP_eq op && Z.leb op OP_ge.

(* einteger: args sa ma sb mb (sign flag, magnitude); result s m, compared by value *)
Definition judge_einteger (cfg : list Z) (op : Z) (args res : list Z) : verdict :=
  let a := sm (nth0 args 0) (nth0 args 1) in let b := sm (nth0 args 2) (nth0 args 3) in
  if Z.eqb op OP_shl then   (* args: sa ma count *)
    (let k := nth0 args 2 in let e := a * 2^k in mkV (Z.eqb (Z.of_nat (length res)) 2 && Z.eqb (sm (nth0 res 0) (nth0 res 1)) e) [b2z (Z.ltb e 0); Z.abs e] true) else
  if Z.eqb op OP_shr then   (* magnitude shift: floor for non-negative, either floor or truncation for negative values *)
    (let k := nth0 args 2 in let e := Z.quot a (2^k) in let f := a / 2^k in let r := sm (nth0 res 0) (nth0 res 1) in
     mkV (Z.eqb (Z.of_nat (length res)) 2 && (Z.eqb r e || Z.eqb r f)) [b2z (Z.ltb e 0); Z.abs e] true) else
  match el_op op a b with
  | None => mkV true res false
  | Some e => if is_cmp op then mkV (list_eqb [e] res) [e] true
              else mkV (Z.eqb (Z.of_nat (length res)) 2 && Z.eqb (sm (nth0 res 0) (nth0 res 1)) e) [b2z (Z.ltb e 0); Z.abs e] true
  end.

(* split a byte list at spaces *)
Fixpoint split_sp (l : list Z) (cur : list Z) : list (list Z) :=
  match l with
  | [] => [rev cur]
  | c :: r => if Z.eqb c 32 then rev cur :: split_sp r [] else split_sp r (c :: cur)
  end.
Definition nthl (l : list (list Z)) (i : nat) : list Z := nth i l [].

(* edecimal: args = bytes of "a b", result = bytes of the decimal string: must be the canonical expansion *)
Definition judge_edecimal (cfg : list Z) (op : Z) (args res : list Z) : verdict :=
  let parts := split_sp args [] in
  match parse_int (nthl parts 0), parse_int (nthl parts 1) with
  | Some a, Some b =>
      match el_op op a b with
      | None => mkV true res false
      | Some e => if is_cmp op then mkV (list_eqb [48 + e] res) [48 + e] true else mkV (list_eqb (dec_of_Z e) res) (dec_of_Z e) true
      end
  | Some a, None => match (if Z.eqb op OP_neg then Some (- a) else None) with Some e => mkV (list_eqb (dec_of_Z e) res) (dec_of_Z e) true | None => mkV false [] false end
  | _, _ => mkV false [] false
  end.

(* erational: args = bytes of "an ad bn bd" (signed numerators, positive denominators); result bytes of "s n d"
   (sign flag, numerator and denominator magnitudes): must be the lowest-terms form, positive denominator, zero = 0/1 *)
Definition judge_erational (cfg : list Z) (op : Z) (args res : list Z) : verdict :=
  let p := split_sp args [] in let r := split_sp res [] in
  match parse_int (nthl p 0), parse_int (nthl p 1), parse_int (nthl p 2), parse_int (nthl p 3) with
  | Some an, Some ad, Some bn, Some bd =>
      if Z.leb ad 0 || Z.leb bd 0 then mkV false [] false else
      let a := Qmake an (Z.to_pos ad) in let b := Qmake bn (Z.to_pos bd) in
      let e := if Z.eqb op OP_add then Some (a + b)%Q else if Z.eqb op OP_sub then Some (a - b)%Q else
               if Z.eqb op OP_mul then Some (a * b)%Q else
               if Z.eqb op OP_div then (if Z.eqb bn 0 then None else Some (a / b)%Q) else None in
      match e with
      | None => mkV true res false
      | Some q => let c := Qred q in
                  let want := [b2z (Z.ltb (Qnum c) 0); Z.abs (Qnum c); Zpos (Qden c)] in
                  match parse_int (nthl r 0), parse_int (nthl r 1), parse_int (nthl r 2) with
                  | Some s, Some n, Some d => mkV (list_eqb want [s; n; d]) want true
                  | _, _, _ => mkV false want true
                  end
      end
  | _, _, _, _ => mkV false [] false
  end.
