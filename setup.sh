#!/bin/sh
# Offline setup: full .vo build of the Coq development, extraction, OCaml judge.
set -e
cd "$(dirname "$0")"
python3 tools/genops.py
cd coq
coq_makefile -f _CoqProject -o Makefile > /dev/null
timeout 7200 make -j"$(nproc)" > ../build_coq.log 2>&1 || { tail -50 ../build_coq.log; exit 1; }
cd ..
python3 -c "import sys; sys.path.insert(0,'tools'); import uvlib; uvlib.ensure_judge()"
echo setup ok
