// structured posit operand generator shared by the posit and quire drivers
#pragma once
#include "common.hpp"
// structured operand generator: specials, extremes, every regime length with
// empty/zero/ones/random/sparse tails
static std::vector<bool> gen_operand(Rng& g, unsigned n) {
	std::vector<bool> b(n, false);
	unsigned k = (unsigned)g.below(16);
	auto setmag = [&](const std::vector<bool>& m, bool neg) {   // m: n-1 magnitude bits, two's complement if neg
		std::vector<bool> v(n, false);
		for (unsigned i = 0; i + 1 < n; ++i) v[i] = m[i];
		if (neg) {   // two's complement: invert, add one
			for (unsigned i = 0; i < n; ++i) v[i] = !v[i];
			bool c = true;
			for (unsigned i = 0; i < n && c; ++i) { bool t = v[i]; v[i] = !t; c = t; }
		}
		return v;
	};
	std::vector<bool> m(n - 1, false);
	bool neg = g.below(2);
	switch (k) {
	case 0: return b;                                   // zero
	case 1: b[n - 1] = true; return b;                  // NaR
	case 2: m[0] = true; return setmag(m, neg);         // +-minpos
	case 3: for (auto&& x : m) x = true; return setmag(m, neg);   // +-maxpos
	case 4: if (n >= 2) m[n - 2] = true; return setmag(m, neg);   // +-1
	case 5: { if (n >= 2) m[n - 2] = true; if (g.below(2)) m[0] = true; else { m[n - 2] = false; for (unsigned i = 0; i + 2 < n; ++i) m[i] = true; } return setmag(m, neg); } // 1 +- ulp
	case 6: case 7: {                                   // uniform random encoding
		for (unsigned i = 0; i < n; ++i) b[i] = g.below(2);
		return b; }
	default: {                                          // regime run r, tail class
		unsigned L = n - 1;
		unsigned r = 1 + (unsigned)g.below(L);          // run length 1..L
		bool ones = g.below(2);
		unsigned pos = L;                               // next bit index to fill (exclusive), msb first
		for (unsigned i = 0; i < r && pos > 0; ++i) m[--pos] = ones;
		if (pos > 0) m[--pos] = !ones;                  // terminator
		unsigned tail = pos;
		unsigned cls = (unsigned)g.below(5);
		for (unsigned i = 0; i < tail; ++i) {
			switch (cls) {
			case 0: m[i] = false; break;
			case 1: m[i] = true; break;
			case 2: m[i] = g.below(2); break;
			case 3: m[i] = (i + 4 >= tail) ? g.below(2) : false; break;     // sparse: only top bits
			default: m[i] = (i < 2) ? g.below(2) : ((i + 3 >= tail) ? g.below(2) : false); break;  // top + bottom bits
			}
		}
		bool allz = true; for (auto x : m) allz = allz && !x;
		if (allz) m[0] = true;
		return setmag(m, neg);
	}
	}
}



// value of a posit encoding as a double, computed from the bits by the driver itself (used only to aim
// native-source generation at the lattice; never to judge).  NaR -> NaN.
#include <cmath>
static double posit_bits_to_double(unsigned n, unsigned es, uint64_t bits) {
	uint64_t mask = (n >= 64) ? ~0ull : ((1ull << n) - 1);
	bits &= mask;
	if (bits == 0) return 0.0;
	if (bits == (1ull << (n - 1))) return NAN;
	bool neg = (bits >> (n - 1)) & 1;
	if (neg) bits = (~bits + 1) & mask;
	int i = (int)n - 2;
	bool r0 = (bits >> i) & 1;
	int run = 0;
	while (i >= 0 && (((bits >> i) & 1) == r0)) { ++run; --i; }
	int k = r0 ? run - 1 : -run;
	--i;   // terminator
	int e = 0;
	for (unsigned j = 0; j < es; ++j) { e <<= 1; if (i >= 0) { e |= (bits >> i) & 1; --i; } }
	double f = 1.0, w = 0.5;
	for (; i >= 0; --i, w *= 0.5) if ((bits >> i) & 1) f += w;
	double v = std::ldexp(f, k * (1 << es) + e);
	return neg ? -v : v;
}
