// Correspondence driver for quire<nbits, es, capacity>: random histories of += / -= posit,
// += quire_mul(a,b), += quire, each step printing the complete state before and after;
// conversion to posit (one rounding); fdp on random vectors, also permuted.
#include <universal/number/posit/posit.hpp>
#include <vector>
#include <algorithm>
#include "drvkit.hpp"
#include "posit_gen.hpp"
using namespace sw::universal;

template <unsigned N, unsigned ES, unsigned CAP>
struct Q {
	using P = posit<N, ES>;
	using QT = quire<N, ES, CAP>;
	// observable magnitude bits: lower (half_range) + upper (half_range + 1) + capacity; note QT::qbits is one less
	static constexpr unsigned qbits = QT::half_range + QT::upper_range + CAP;
	static std::string cfg() { return std::to_string(N) + "," + std::to_string(ES) + "," + std::to_string(CAP); }
	static std::string st(const QT& q) {
		std::string m = hex_from_bits(qbits, [&](unsigned i) { return q[(int)i]; });
		return std::string(q.sign() ? "1," : "0,") + m;
	}
	static std::string pb(const P& p) { auto bb = p.get(); return hex_from_bits(N, [&](unsigned i) { return bb.test(i); }); }
	static P mkp(const std::vector<bool>& b) { P p; uint64_t v = 0; for (unsigned i = 0; i < N; ++i) if (b[i]) v |= 1ull << i; p.setbits(v); return p; }
	static P operand(Rng& g, const P& prev) {
		switch (g.below(6)) {
		case 0: return -prev;                       // cancellation
		case 1: return prev;
		default: { P p = mkp(gen_operand(g, N)); if (p.isnar()) p.setbits(1); return p; }
		}
	}
	static void line(int op, const std::string& before, const std::string& args, const std::string& after) {
		printf("%d %s %d %s%s%s %s\n", FAM_quire, cfg().c_str(), op, before.c_str(), args.empty() ? "" : ",", args.c_str(), after.c_str());
	}
	struct Step { int op; P a, b; };
	static void apply(QT& q, const Step& s) {
		std::string before = st(q);
		try {
			switch (s.op) {
			case OP_qstep_add: q += s.a; line(s.op, before, pb(s.a), st(q)); break;
			case OP_qstep_sub: q -= s.a; line(s.op, before, pb(s.a), st(q)); break;
			case OP_qstep_mul: q += quire_mul(s.a, s.b); line(s.op, before, pb(s.a) + "," + pb(s.b), st(q)); break;
			}
		} catch (const std::exception& e) { line(s.op, before, pb(s.a) + "," + pb(s.b), std::string("!") + typeid(e).name()); }
		catch (...) { line(s.op, before, pb(s.a), "!unknown"); }
	}
	static void round(const QT& q) {
		P p; convert(q.to_value(), p);
		line(OP_qround, st(q), "", pb(p));
	}
	static void run(uint64_t seed, uint64_t count) {
		Rng g(seed * 7919 + N * 131 + ES * 17 + CAP);
		for (uint64_t h = 0; h < count; ++h) {
			unsigned len = 1 + (unsigned)g.below(40);
			std::vector<Step> steps;
			P prev; prev.setbits(1);
			// a third of the histories are aimed at the segment boundaries: push the sum into the capacity bits with
			// maxpos^2 products (or into the upper segment with maxpos), mix in small terms, then cancel it again
			bool aimed = g.below(3) == 0;
			P mx; mx.setbits((1ull << (N - 1)) - 1);
			unsigned big = aimed ? 2 + (unsigned)g.below(5) : 0;
			bool bigneg = g.below(2);
			for (unsigned i = 0; i < big; ++i) { Step s; s.op = g.below(4) ? OP_qstep_mul : OP_qstep_add; s.a = bigneg ? -mx : mx; s.b = mx; steps.push_back(s); }
			for (unsigned i = 0; i < len; ++i) {
				Step s; s.op = (int)(OP_qstep_add + g.below(3));
				s.a = operand(g, prev); s.b = operand(g, s.a); prev = s.a;
				steps.push_back(s);
			}
			for (unsigned i = 0; i < big; ++i) { Step s = steps[i]; s.a = -s.a; if (g.below(4)) steps.push_back(s); }
			QT q; q.clear();
			for (auto& s : steps) { apply(q, s); if (g.below(4) == 0) round(q); }
			round(q);
			std::string final1 = st(q);
			// the same history permuted: each step is judged again; the final state must be the same
			std::vector<Step> perm = steps;
			for (size_t i = perm.size(); i > 1; --i) std::swap(perm[i - 1], perm[g.below(i)]);
			QT q2; q2.clear();
			for (auto& s : perm) apply(q2, s);
			// and partitioned into partial quires that are then added
			unsigned parts = 2 + (unsigned)g.below(3);
			std::vector<QT> pq(parts);
			for (auto& x : pq) x.clear();
			for (size_t i = 0; i < steps.size(); ++i) apply(pq[i % parts], steps[i]);
			QT q3; q3.clear();
			for (auto& x : pq) {
				std::string before = st(q3);
				try { q3 += x; line(OP_qstep_quire, before, st(x), st(q3)); }
				catch (const std::exception& e) { line(OP_qstep_quire, before, st(x), std::string("!") + typeid(e).name()); }
			}
			round(q3);
			// fdp on the multiplication steps, in two orders
			std::vector<P> xs, ys;
			for (auto& s : steps) { xs.push_back(s.a); ys.push_back(s.b); }
			for (int rep = 0; rep < 2; ++rep) {
				std::string args;
				for (size_t i = 0; i < xs.size(); ++i) args += (i ? "," : "") + pb(xs[i]) + "," + pb(ys[i]);
				P r = fdp(xs, ys);
				printf("%d %s %d %s %s\n", FAM_quire, cfg().c_str(), OP_fdp, args.c_str(), pb(r).c_str());
				std::reverse(xs.begin(), xs.end()); std::reverse(ys.begin(), ys.end());
			}
		}
	}
};

int main(int argc, char** argv) {
	Args A = parse_args(argc, argv);
	unsigned k = 0;
	auto mine = [&]() { return (k++ % A.nshards) == A.shard; };
	if (mine()) Q<8, 0, 10>::run(A.seed, A.count);
	if (mine()) Q<8, 1, 4>::run(A.seed, A.count);
	if (mine()) Q<8, 2, 30>::run(A.seed, A.count);
	if (mine()) Q<6, 2, 2>::run(A.seed, A.count);
	if (mine()) Q<5, 0, 3>::run(A.seed, A.count);
	if (mine()) Q<16, 1, 30>::run(A.seed, A.count);
	if (mine()) Q<16, 2, 10>::run(A.seed, A.count);
	if (mine()) Q<12, 1, 8>::run(A.seed, A.count);
	if (mine()) Q<32, 2, 30>::run(A.seed, A.count / 4 + 1);
	if (mine()) Q<24, 1, 16>::run(A.seed, A.count / 2 + 1);
	return 0;
}
