// Correspondence driver for cfloat<nbits, es, bt, sub, sup, sat>.
// groups: arith (+ - * / neg), cmp (comparisons, ++ --), conv (native conversions)
// compile-time sets (to parallelise compilation): -DSET=0..3 small sets, -DSET=10.. large sets
#ifdef THROWING
#define CFLOAT_THROW_ARITHMETIC_EXCEPTION 1
#endif
#include <universal/number/cfloat/cfloat.hpp>
#include <cmath>
#include "drvkit.hpp"
using namespace sw::universal;

static std::string g_group = "arith";

template <unsigned N, unsigned ES, typename BT, bool SUB, bool SUP, bool SAT>
struct R : Runner {
	using T = cfloat<N, ES, BT, SUB, SUP, SAT>;
	struct Tr {
		static T mk(const std::string& h) { return mk_bits<T>(h, N); }
		static std::string out(const T& v) { return out_bits(v, N); }
	};
	R(bool sm) {
		fam = FAM_cfloat; nbits = N; small = sm;
		cfg = std::to_string(N) + "," + std::to_string(ES) + "," + (SUB ? "1" : "0") + "," + (SUP ? "1" : "0") + "," + (SAT ? "1" : "0") + "," + std::to_string(8 * sizeof(BT));
		if (g_group == "arith") { ops1 = {OP_neg}; ops2 = {OP_add, OP_sub, OP_mul, OP_div}; }
		if (g_group == "cmp") { ops1 = {OP_inc, OP_dec}; ops2 = {OP_eq, OP_ne, OP_lt, OP_le, OP_gt, OP_ge}; }
		if (g_group == "conv") { ops1 = {OP_to_f64, OP_to_f32, OP_to_f64_rt}; }
		if (g_group == "sqrt") { ops1 = {OP_sqrt}; }
	}
	std::string run(int op, const std::vector<std::string>& a) override {
		return guarded([&]() -> std::string {
			if (op == OP_limits) return limits_of<T, Tr>(false);
			if (op >= OP_from_f32 && op <= OP_to_f80) return native_conv<T, Tr>(op, a);
			T x = Tr::mk(a[0]);
			switch (op) {
			case OP_add: return Tr::out(x + Tr::mk(a[1]));
			case OP_sub: return Tr::out(x - Tr::mk(a[1]));
			case OP_mul: return Tr::out(x * Tr::mk(a[1]));
			case OP_div: return Tr::out(x / Tr::mk(a[1]));
			case OP_neg: return Tr::out(-x);
			case OP_sqrt: return Tr::out(sqrt(x));
			case OP_inc: { ++x; return Tr::out(x); }
			case OP_dec: { --x; return Tr::out(x); }
			case OP_eq: return b01(x == Tr::mk(a[1]));
			case OP_ne: return b01(x != Tr::mk(a[1]));
			case OP_lt: return b01(x < Tr::mk(a[1]));
			case OP_le: return b01(x <= Tr::mk(a[1]));
			case OP_gt: return b01(x > Tr::mk(a[1]));
			case OP_ge: return b01(x >= Tr::mk(a[1]));
			default: return "?";
			}
		});
	}
	void extra(const std::string& ha, Rng& g, const std::function<void(int, std::vector<std::string>)>& emit) override {
		if (g_group == "cmp" && ha.find_first_not_of('0') == std::string::npos) emit(OP_limits, {});
		if (g_group != "conv") return;
		bool first = ha.find_first_not_of('0') == std::string::npos;
		T x = Tr::mk(ha); T y = x; ++y;
		native_sources(double(x), double(y), first, g, emit);
		emit(OP_to_int, {"20", ha}); emit(OP_to_int, {"40", ha});
	}
	// floating-point operand generator: field-structured
	std::vector<bool> gen(Rng& g) override {
		std::vector<bool> b(N, false);
		constexpr unsigned FB = N - 1 - ES;
		unsigned k = (unsigned)g.below(10);
		if (k == 0) return Runner::gen(g);
		b[N - 1] = g.below(2);
		// exponent class: zero, one, all-ones, all-ones minus one, middle (bias), random
		uint64_t e; uint64_t emaxall = (ES >= 64) ? ~0ull : ((1ull << ES) - 1);
		// wide exponent fields: mostly near the bias (the rounding logic does not depend on the scale and
		// the exact-rational judge is quadratic in the magnitude of the exponent), extremes less often
		unsigned ec = (unsigned)g.below(ES >= 9 ? 40 : 7);
		switch (ec) {
		case 0: e = 0; break;
		case 1: e = 1; break;
		case 2: e = emaxall; break;
		case 3: e = emaxall - 1; break;
		case 4: e = (emaxall >> 1) + g.below(3) - 1; break;
		case 5: case 6: e = g.next() & emaxall; break;
		default: e = (emaxall >> 1) + g.below(80) - 40; break;
		}
		for (unsigned i = 0; i < ES; ++i) b[FB + i] = (e >> i) & 1;
		// fraction class: zero, ones, ones minus one, one, random, sparse top, sparse bottom
		unsigned fc = (unsigned)g.below(7);
		for (unsigned i = 0; i < FB; ++i) {
			switch (fc) {
			case 0: b[i] = false; break;
			case 1: b[i] = true; break;
			case 2: b[i] = (i != 0); break;
			case 3: b[i] = (i == 0); break;
			case 4: b[i] = g.below(2); break;
			case 5: b[i] = (i + 3 >= FB) ? (bool)g.below(2) : false; break;
			default: b[i] = (i < 2 || i + 2 >= FB) ? (bool)g.below(2) : false; break;
			}
		}
		return b;
	}
};

// IEEE-754 hardware as one more "implementation" of single and duble: the same operand streams through native float / double,
// printed under the same family with block-type tag 0 ("32,8,1,0,0,0"), so that the Coq model (not the library) is what is
// compared with the hardware -- C02: "single, duble ... agree with IEEE-754 hardware arithmetic"
template <class F, class U, unsigned N, unsigned ES>
struct HW : R<N, ES, U, true, false, false> {
	using Base = R<N, ES, U, true, false, false>;
	HW() : Base(false) {
		this->cfg = std::to_string(N) + "," + std::to_string(ES) + ",1,0,0,0";
		this->ops1.clear(); this->ops2.clear();
		if (g_group == "arith") { this->ops1 = {OP_neg}; this->ops2 = {OP_add, OP_sub, OP_mul, OP_div}; }
		if (g_group == "cmp") { this->ops2 = {OP_eq, OP_ne, OP_lt, OP_le, OP_gt, OP_ge}; }
		if (g_group == "sqrt") { this->ops1 = {OP_sqrt}; }
	}
	// operands and results are cfloat encodings; only the infinity / NaN patterns differ from IEEE-754 (universal: inf = s.1..1.1..10,
	// every other all-ones-exponent pattern is NaN), so those are translated; every finite pattern is passed through bit for bit
	static constexpr unsigned FB = N - 1 - ES;
	static F mk(const std::string& h) {
		U u = (U)hexu64(h); U fr = u & ((U(1) << FB) - 1); U ex = (u >> FB) & ((U(1) << ES) - 1); bool sg = (u >> (N - 1)) & 1;
		if (ex == ((U(1) << ES) - 1)) {
			if (fr == ((U(1) << FB) - 2)) return sg ? -std::numeric_limits<F>::infinity() : std::numeric_limits<F>::infinity();
			return std::numeric_limits<F>::quiet_NaN();
		}
		F f; memcpy(&f, &u, sizeof f); return f;
	}
	static std::string out(F f) {
		U u; memcpy(&u, &f, sizeof f);
		if (f != f) u = (U(1) << (N - 1)) - 1;                                            // quiet NaN pattern 0.1..1.1..11
		else if (std::isinf(f)) u = (u & (U(1) << (N - 1))) | ((U(1) << (N - 1)) - 2);   // s.1..1.1..10
		return hex_from_bits(N, [&](unsigned i) { return (u >> i) & 1; });
	}
	std::string run(int op, const std::vector<std::string>& a) override {
		volatile F x = mk(a[0]); volatile F y = a.size() > 1 ? mk(a[1]) : F(0);
		switch (op) {
		case OP_add: return out(x + y); case OP_sub: return out(x - y); case OP_mul: return out(x * y); case OP_div: return out(x / y);
		case OP_neg: return out(-x); case OP_sqrt: return out(std::sqrt((F)x));
		case OP_eq: return b01(x == y); case OP_ne: return b01(x != y); case OP_lt: return b01(x < y);
		case OP_le: return b01(x <= y); case OP_gt: return b01(x > y); case OP_ge: return b01(x >= y);
		default: return "?unsupported";
		}
	}
	void extra(const std::string&, Rng&, const std::function<void(int, std::vector<std::string>)>&) override {}
};

template <unsigned N, unsigned ES, typename BT, bool SUB, bool SUP, bool SAT> static void reg(bool sm) {
	g_runners.emplace_back(new R<N, ES, BT, SUB, SUP, SAT>(sm));
}
template <unsigned N, unsigned ES, typename BT> static void regFlags(bool sm) {
	reg<N, ES, BT, true, false, false>(sm); reg<N, ES, BT, false, false, false>(sm);
	reg<N, ES, BT, true, true, false>(sm); reg<N, ES, BT, false, true, false>(sm);
	reg<N, ES, BT, true, false, true>(sm); reg<N, ES, BT, false, false, true>(sm);
	reg<N, ES, BT, true, true, true>(sm); reg<N, ES, BT, false, true, true>(sm);
}

#ifndef SET
#define SET 0
#endif

int main(int argc, char** argv) {
	g_group = parse_group(argc, argv, g_group);
#if SET == 0
	regFlags<8, 2, uint8_t>(true); regFlags<6, 2, uint8_t>(true);
	reg<8, 1, uint8_t, true, true, false>(true); reg<8, 1, uint8_t, true, true, true>(true);
#elif SET == 1
	regFlags<8, 3, uint8_t>(true); regFlags<5, 2, uint8_t>(true); reg<4, 1, uint8_t, true, true, false>(true);
	reg<6, 1, uint8_t, true, true, false>(true);
#elif SET == 2
	regFlags<8, 4, uint8_t>(true); regFlags<7, 3, uint8_t>(true);
#elif SET == 3
	regFlags<8, 5, uint8_t>(true); regFlags<8, 6, uint8_t>(true);
#elif SET == 4
	regFlags<9, 3, uint8_t>(true); regFlags<10, 4, uint16_t>(true);
#elif SET == 10
	reg<16, 5, uint16_t, true, false, false>(false); reg<16, 5, uint8_t, true, false, false>(false);   // half
	reg<16, 8, uint16_t, true, false, false>(false);                                                    // bfloat_t
	reg<16, 5, uint16_t, false, false, false>(false); reg<16, 5, uint16_t, true, true, true>(false);
	reg<12, 4, uint8_t, true, false, false>(false); reg<19, 8, uint32_t, true, false, false>(false);
	reg<24, 5, uint8_t, true, true, false>(false);
#elif SET == 11
	reg<32, 8, uint32_t, true, false, false>(false); reg<32, 8, uint8_t, true, false, false>(false);    // single
	reg<32, 8, uint16_t, false, false, true>(false); reg<40, 8, uint32_t, true, false, false>(false);
	g_runners.emplace_back(new HW<float, uint32_t, 32, 8>());
#elif SET == 12
	reg<64, 11, uint32_t, true, false, false>(false); reg<64, 11, uint64_t, true, false, false>(false); // duble
	reg<48, 9, uint16_t, true, false, false>(false);
	g_runners.emplace_back(new HW<double, uint64_t, 64, 11>());
#elif SET == 13
	reg<80, 11, uint16_t, true, false, false>(false); reg<128, 15, uint32_t, true, false, false>(false); // quad
	reg<100, 15, uint8_t, true, false, false>(false);
#endif
	return drv_main(argc, argv);
}
