// Correspondence driver for areal<nbits, es, bt>: conversion from float/double (enclosure, C18),
// read-back of the lower bound (C04).
#include <universal/number/areal/areal.hpp>
#include <cmath>
#include "drvkit.hpp"
using namespace sw::universal;

static std::string g_group = "conv";

template <unsigned N, unsigned ES, typename BT>
struct R : Runner {
	using T = areal<N, ES, BT>;
	struct Tr {
		static T mk(const std::string& h) { T v; v.setbits(hexu64(h)); return v; }
		static std::string out(const T& v) { return out_bits(v, N); }
	};
	R(bool sm) {
		fam = FAM_areal; nbits = N; small = sm;
		cfg = std::to_string(N) + "," + std::to_string(ES) + "," + std::to_string(8 * sizeof(BT));
		ops1 = {OP_to_f64, OP_to_f32, OP_to_f64_rt};
	}
	std::string run(int op, const std::vector<std::string>& a) override {
		return guarded([&]() -> std::string {
			switch (op) {
			case OP_from_f64: { T x; x = f64from(hexu64(a[0])); return Tr::out(x); }
			case OP_from_f32: { T x; x = f32from((uint32_t)hexu64(a[0])); return Tr::out(x); }
			case OP_to_f64: return hex64(f64bits(double(Tr::mk(a[0]))));
			case OP_to_f32: return hex64(f32bits(float(Tr::mk(a[0]))));
			case OP_to_f64_rt: { T x = Tr::mk(a[0]); double d = double(x); T y; y = d; return Tr::out(y); }
			default: return "?";
			}
		});
	}
	void extra(const std::string& ha, Rng& g, const std::function<void(int, std::vector<std::string>)>& emit) override {
		bool first = ha.find_first_not_of('0') == std::string::npos;
		T x = Tr::mk(ha);
		// next exact value: encoding + 2 (skip the ubit)
		T y = Tr::mk(hex64(hexu64(ha) + 2));
		double v = double(x), v2 = double(y);
		auto em = [&](int op, std::vector<std::string> a) { if (op == OP_from_f64 || op == OP_from_f32) emit(op, a); };
		if (N <= 64) native_sources(v, v2, first, g, em);
		if (first) {
			// beyond the largest finite value and below the smallest
			T mx = Tr::mk(hex64((1ull << (N - 1)) - 4)); double mv = double(mx);
			for (double d : {mv, nextafter(mv, INFINITY), mv * 1.25, mv * 1.5, mv * 1.75, mv * 2, mv * 3, mv * 1e10, -mv * 1.5, -mv * 2})
				emit(OP_from_f64, {hex64(f64bits(d))});
			T mn = Tr::mk("2"); double nv = double(mn);
			for (double d : {nv, nv / 2, nv / 3, nv * 0.99, -nv / 2, nv * 1.5})
				emit(OP_from_f64, {hex64(f64bits(d))});
		}
	}
};

template <unsigned N, unsigned ES, typename BT> static void reg(bool sm) { g_runners.emplace_back(new R<N, ES, BT>(sm)); }

int main(int argc, char** argv) {
	g_group = parse_group(argc, argv, g_group);
#ifndef NO_SMALL
	reg<5, 1, uint8_t>(true); reg<6, 1, uint8_t>(true); reg<6, 2, uint8_t>(true); reg<7, 2, uint8_t>(true); reg<8, 1, uint8_t>(true);
	reg<8, 2, uint8_t>(true); reg<8, 3, uint8_t>(true); reg<8, 4, uint8_t>(true); reg<8, 2, uint16_t>(true);
	reg<9, 3, uint8_t>(true); reg<10, 3, uint8_t>(true); reg<10, 4, uint16_t>(true); reg<12, 4, uint8_t>(true); reg<12, 5, uint16_t>(true);
#endif
#ifndef NO_LARGE
	reg<16, 5, uint8_t>(false); reg<16, 5, uint16_t>(false); reg<16, 8, uint16_t>(false); reg<20, 6, uint32_t>(false); reg<24, 7, uint8_t>(false);
	reg<32, 8, uint8_t>(false); reg<32, 8, uint16_t>(false); reg<32, 8, uint32_t>(false); reg<33, 8, uint32_t>(false); reg<48, 9, uint16_t>(false);
#endif
	return drv_main(argc, argv);
}
