// C16: text forms.  Round trips are executed inside the driver (print with the library, parse back with the
// library) and the resulting encoding is printed; decimal output is printed as a list of byte codes; digit
// strings to parse are passed as byte codes.  The driver never interprets the text.
#include <universal/number/posit/posit.hpp>
#include <universal/number/cfloat/cfloat.hpp>
#include <universal/number/fixpnt/fixpnt.hpp>
#include <universal/number/integer/integer.hpp>
#include <sstream>
#include "drvkit.hpp"
#include "posit_gen.hpp"
using namespace sw::universal;

static std::string bytes_of(const std::string& s) {
	std::string r;
	for (size_t i = 0; i < s.size(); ++i) { char b[8]; snprintf(b, sizeof b, "%s%x", i ? "," : "", (unsigned char)s[i]); r += b; }
	return r.empty() ? "-" : r;
}
static std::string string_of(const std::vector<std::string>& a, size_t from) {
	std::string s;
	for (size_t i = from; i < a.size(); ++i) s.push_back((char)strtoul(a[i].c_str(), nullptr, 16));
	return s;
}

// variants of a library-printed 0b string for the assign() parsers: the string itself, a nibble marker inserted, one character
// replaced, one deleted, a separator moved -- the judge evaluates the transcribed parser (cf_assign / fx_assign) on the same bytes
static void emit_assign_variants(const std::string& s, Rng& g, const std::function<void(int, std::vector<std::string>)>& emit) {
	auto em = [&](const std::string& t) { std::vector<std::string> v; for (unsigned char c : t) { char b[8]; snprintf(b, sizeof b, "%x", c); v.push_back(b); } emit(OP_strassign, v); };
	em(s);
	if (s.size() < 3) return;
	size_t n = s.size();
	{ std::string t = s; t.insert(2 + g.below(n - 1), 1, '\''); em(t); }
	{ std::string t = s; t[g.below(n)] = "01.'2b"[g.below(6)]; em(t); }
	{ std::string t = s; t.erase(g.below(n), 1); em(t); }
	{ std::string t = s; size_t d = t.find('.', 2 + g.below(n - 2)); if (d != std::string::npos && d + 1 < n) { std::swap(t[d], t[d + 1]); em(t); } }
}

template <unsigned N, unsigned ES>
struct RP : Runner {
	using T = posit<N, ES>;
	RP(bool sm) { fam = FAM_posit; nbits = N; small = sm; cfg = std::to_string(N) + "," + std::to_string(ES); ops1 = {OP_hexfmt, OP_hexparse, OP_hexstr}; }
	void extra(const std::string& ha, Rng& g, const std::function<void(int, std::vector<std::string>)>& emit) override {
		// strings for parse(): the library's own text, without the inner 0x, with X, printed by a wider posit (the top bits are taken),
		// with a random width prefix, and the generic mutations; the judge evaluates the transcribed parser on the same bytes
		T x; x.setbits(hexu64(ha)); std::string s = hex_format(x);
		auto em = [&](const std::string& t) { std::vector<std::string> v; for (unsigned char c : t) { char b[8]; snprintf(b, sizeof b, "%x", c); v.push_back(b); } emit(OP_strassign, v); };
		size_t ix = s.find("x0x");
		if (ix != std::string::npos) { std::string t = s; t.erase(ix + 1, 2); em(t); t = s; t[ix] = 'X'; em(t); t = s; t[ix + 2] = 'X'; em(t); }
		{ posit<N + 5, ES> w; w.setbits(hexu64(ha) << 5 | g.below(32)); em(hex_format(w)); }
		{ std::string t = std::to_string(g.below(140)) + s.substr(s.find('.')); em(t); }
		{ std::string t = s; if (t.size() > 1) t.pop_back(); em(t + "pp"); em(t + "g"); }
		emit_assign_variants(s, g, emit);
	}
	static std::string out(const T& p) { auto bb = p.get(); return hex_from_bits(N, [&](unsigned i) { return bb.test(i); }); }
	std::string run(int op, const std::vector<std::string>& a) override {
		return guarded([&]() -> std::string {
			if (op == OP_strassign) { T y; std::string s = string_of(a, 0); if (!parse(s, y)) return "!parse-failed"; return out(y); }
			T x; x.setbits(hexu64(a[0]));
			if (op == OP_hexfmt) { std::string s = hex_format(x); T y; if (!parse(s, y)) return "!parse-failed"; return out(y); }
			if (op == OP_hexparse) { std::stringstream ss; ss << hex_format(x); T y; ss >> y; return out(y); }   // operator>>
			if (op == OP_hexstr) return bytes_of(hex_format(x));   // the text itself, compared byte for byte with the model's string
			return "?";
		});
	}
	std::vector<bool> gen(Rng& g) override { return gen_operand(g, N); }
};
template <unsigned N, unsigned ES, typename BT, bool SUB, bool SUP, bool SAT>
struct RC : Runner {
	using T = cfloat<N, ES, BT, SUB, SUP, SAT>;
	RC(bool sm) { fam = FAM_cfloat; nbits = N; small = sm; ops1 = {OP_binfmt, OP_binstr};
		cfg = std::to_string(N) + "," + std::to_string(ES) + "," + (SUB ? "1" : "0") + "," + (SUP ? "1" : "0") + "," + (SAT ? "1" : "0") + "," + std::to_string(8 * sizeof(BT)); }
	std::string run(int op, const std::vector<std::string>& a) override {
		return guarded([&]() -> std::string {
			if (op == OP_strassign) { T y; y.assign(string_of(a, 0)); return out_bits(y, N); }
			T x = mk_bits<T>(a[0], N);
			if (op == OP_binfmt) { std::string s = to_binary(x); T y; y.assign(s); return out_bits(y, N); }
			if (op == OP_binstr) return bytes_of(to_binary(x));
			return "?";
		});
	}
	void extra(const std::string& ha, Rng& g, const std::function<void(int, std::vector<std::string>)>& emit) override {
		T x = mk_bits<T>(ha, N); emit_assign_variants(to_binary(x), g, emit);
	}
};
template <unsigned N, unsigned RB, typename BT>
struct RF : Runner {
	using T = fixpnt<N, RB, Modulo, BT>;
	RF(bool sm) { fam = FAM_fixpnt; nbits = N; small = sm; ops1 = {OP_binfmt, OP_decfmt, OP_binstr};
		cfg = std::to_string(N) + "," + std::to_string(RB) + ",0," + std::to_string(8 * sizeof(BT)); }
	std::string run(int op, const std::vector<std::string>& a) override {
		return guarded([&]() -> std::string {
			if (op == OP_strassign) { T y; y.assign(string_of(a, 0)); return out_bits(y, N); }
			T x = mk_bits<T>(a[0], N);
			if (op == OP_binfmt) { std::string s = to_binary(x); T y; y.assign(s); return out_bits(y, N); }
			if (op == OP_binstr) return bytes_of(to_binary(x));
			if (op == OP_decfmt) { std::stringstream ss; ss << std::setprecision(200) << x; return bytes_of(convert_to_decimal_string(x)); }
			return "?";
		});
	}
	void extra(const std::string& ha, Rng& g, const std::function<void(int, std::vector<std::string>)>& emit) override {
		T x = mk_bits<T>(ha, N); emit_assign_variants(to_binary(x), g, emit);
	}
};
template <unsigned N, typename BT>
struct RI : Runner {
	using T = integer<N, BT>;
	RI(bool sm) { fam = FAM_integer; nbits = N; small = sm; ops1 = {OP_hexfmt, OP_decfmt, OP_streamfmt, OP_binparse, OP_hexstr, OP_hexparse};
		cfg = std::to_string(N) + "," + std::to_string(8 * sizeof(BT)); }
	std::string run(int op, const std::vector<std::string>& a) override {
		return guarded([&]() -> std::string {
			if (op == OP_decparse) { T y; std::string s = string_of(a, 0); if (!parse(s, y)) return "!parse-failed"; return out_bits(y, N); }
			T x = mk_bits<T>(a[0], N);
			if (op == OP_hexfmt) {   // hexadecimal string of the (non-negative reading of the) bits, parsed back
				std::string s = "0x" + hex_from_bits(N, [&](unsigned i) { return x.at(i); });
				T y; if (!parse(s, y)) return "!parse-failed"; return out_bits(y, N); }
			if (op == OP_binparse) { std::string s = to_string(x); T y; if (!parse(s, y)) return "!parse-failed"; return out_bits(y, N); }   // decimal round trip
			if (op == OP_hexstr) return bytes_of(to_hex(x));      // the library's own hexadecimal string (upper case), byte for byte
			if (op == OP_hexparse) { std::string s = to_hex(x); T y; if (!parse(s, y)) return "!parse-failed"; return out_bits(y, N); }
			if (op == OP_decfmt) return bytes_of(to_string(x));
			if (op == OP_streamfmt) { std::stringstream ss; ss << x; return bytes_of(ss.str()); }   // operator<< (a different code path: convert_to_string)
			return "?";
		});
	}
	void extra(const std::string& ha, Rng& g, const std::function<void(int, std::vector<std::string>)>& emit) override {
		// digit strings up to the capacity of the type (+1 digit), decimal and hexadecimal
		auto em = [&](const std::string& s) { std::vector<std::string> v; for (unsigned char c : s) { char b[8]; snprintf(b, sizeof b, "%x", c); v.push_back(b); } emit(OP_decparse, v); };
		unsigned maxdec = (unsigned)(N * 0.30103) + 2;
		std::string d; unsigned len = 1 + (unsigned)g.below(maxdec);
		for (unsigned i = 0; i < len; ++i) d.push_back((char)('0' + (i == 0 ? 1 + g.below(9) : g.below(10))));
		em(d); em("-" + d);
		std::string h = "0x"; unsigned hl = 1 + (unsigned)g.below((N + 3) / 4 + 1);
		for (unsigned i = 0; i < hl; ++i) h.push_back("0123456789abcdefABCDEF"[g.below(22)]);
		em(h);
		em("0x" + ha);
	}
};

template <unsigned N, unsigned ES> static void regP(bool sm) { g_runners.emplace_back(new RP<N, ES>(sm)); }
template <unsigned N, unsigned ES, typename BT, bool SUB, bool SUP, bool SAT> static void regC(bool sm) { g_runners.emplace_back(new RC<N, ES, BT, SUB, SUP, SAT>(sm)); }
template <unsigned N, unsigned RB, typename BT> static void regF(bool sm) { g_runners.emplace_back(new RF<N, RB, BT>(sm)); }
template <unsigned N, typename BT> static void regI(bool sm) { g_runners.emplace_back(new RI<N, BT>(sm)); }

int main(int argc, char** argv) {
	regP<4,0>(true); regP<5,1>(true); regP<6,2>(true); regP<7,1>(true); regP<8,0>(true); regP<8,2>(true); regP<9,1>(true); regP<10,1>(true); regP<11,2>(true); regP<12,1>(true);
	regP<13,2>(false); regP<16,1>(false); regP<17,1>(false); regP<20,2>(false); regP<24,2>(false); regP<31,2>(false); regP<32,2>(false); regP<33,2>(false); regP<48,2>(false); regP<64,3>(false);
	regC<8,2,uint8_t,true,false,false>(true); regC<8,4,uint8_t,false,true,false>(true); regC<9,3,uint8_t,true,true,true>(true); regC<12,4,uint8_t,true,false,false>(true);
	regC<16,5,uint16_t,true,false,false>(false); regC<16,8,uint8_t,true,false,false>(false); regC<24,5,uint8_t,true,true,false>(false); regC<32,8,uint32_t,true,false,false>(false); regC<40,8,uint16_t,false,false,true>(false); regC<64,11,uint32_t,true,false,false>(false);
	regF<4,2,uint8_t>(true); regF<7,3,uint8_t>(true); regF<8,0,uint8_t>(true); regF<8,4,uint8_t>(true); regF<8,8,uint8_t>(true); regF<10,5,uint8_t>(true); regF<12,4,uint16_t>(true);
	regF<16,8,uint8_t>(false); regF<24,12,uint16_t>(false); regF<32,16,uint32_t>(false); regF<33,16,uint8_t>(false); regF<48,24,uint16_t>(false); regF<64,32,uint32_t>(false);
	regI<4,uint8_t>(true); regI<5,uint16_t>(true); regI<6,uint8_t>(true); regI<7,uint8_t>(true); regI<11,uint32_t>(true); regI<8,uint8_t>(true); regI<9,uint8_t>(true); regI<10,uint16_t>(true); regI<12,uint8_t>(true);
	regI<13,uint16_t>(false); regI<15,uint8_t>(false); regI<16,uint16_t>(false); regI<20,uint32_t>(false); regI<29,uint32_t>(false); regI<40,uint64_t>(false); regI<59,uint64_t>(false); regI<17,uint8_t>(false); regI<24,uint8_t>(false); regI<31,uint16_t>(false); regI<32,uint32_t>(false); regI<33,uint8_t>(false); regI<64,uint32_t>(false); regI<65,uint16_t>(false); regI<128,uint32_t>(false); regI<70,uint64_t>(false); regI<128,uint64_t>(false);
	return drv_main(argc, argv);
}
