// Generic correspondence-driver skeleton: a registry of type-erased runners (one per
// configuration), exhaustive / structured-random / replay loops, uniform case lines.
#pragma once
#include "common.hpp"
#include <memory>
#include <functional>
#include <typeinfo>
#include <exception>
#include <type_traits>
#include <iostream>
#include <map>

struct Runner {
	int fam = 0;
	std::string cfg;       // comma separated decimal configuration integers
	unsigned nbits = 0;    // width of an operand encoding
	bool small = false;    // enumerate exhaustively
	std::vector<int> ops1, ops2;   // unary / binary operations on encodings
	virtual ~Runner() {}
	virtual std::string run(int op, const std::vector<std::string>& a) = 0;
	// extra cases (shifts, native sources, ...): called once per operand a in exhaustive
	// mode and once per generated operand in random mode
	virtual void extra(const std::string& ha, Rng& g, const std::function<void(int, std::vector<std::string>)>& emit) {}
	// operand generator (bit vector, LSB first); default = generic structured patterns
	virtual std::vector<bool> gen(Rng& g);
};

static std::vector<std::unique_ptr<Runner>> g_runners;

template <class T>
static T mk_bits(const std::string& h, unsigned nbits) {
	T v;
	if (nbits <= 64) {
		v.setbits(strtoull(h.c_str(), nullptr, 16));
	} else {
		v.setbits(0);
		unsigned L = (unsigned)h.size();
		for (unsigned i = 0; i < nbits; ++i) {
			unsigned d = i / 4;
			if (d >= L) break;
			char c = h[L - 1 - d];
			unsigned x = (c <= '9') ? c - '0' : c - 'a' + 10;
			v.setbit(i, (x >> (i % 4)) & 1);
		}
	}
	return v;
}
template <class T>
static std::string out_bits(const T& v, unsigned nbits) {
	std::string h = hex_from_bits(nbits, [&](unsigned i) { return v.at(i); });
#ifdef CHECK_CANONICAL
	// C20: no bits set outside the type's width -- rebuild the value from its nbits visible bits in zeroed storage and
	// compare the complete object representation
	if constexpr (std::is_trivially_copyable_v<T> && requires(T t) { t.setbits(0ull); }) {
		T w; memset((void*)&w, 0, sizeof(T));
		if (nbits <= 64) w.setbits(strtoull(h.c_str(), nullptr, 16));
		else { w.setbits(0); for (unsigned i = 0; i < nbits; ++i) if constexpr (requires(T t) { t.setbit(0u, true); }) w.setbit(i, v.at(i)); }
		T u; memset((void*)&u, 0, sizeof(T)); u = v;
		if (memcmp((const void*)&u, (const void*)&w, sizeof(T)) != 0) return "!stale:" + h;
	}
#endif
	return h;
}
static inline std::string hex_of_vec(const std::vector<bool>& b) {
	return hex_from_bits((unsigned)b.size(), [&](unsigned i) { return (bool)b[i]; });
}
static inline const char* b01(bool b) { return b ? "1" : "0"; }

// guard every API call: an exception is an observable result, not a crash; a synchronous signal
// (SIGFPE from a native division, SIGSEGV, abort) is recovered with siglongjmp and reported as "!SIG<n>"
#include <csignal>
#include <csetjmp>
#include <unistd.h>
static sigjmp_buf g_jmp;
static volatile sig_atomic_t g_in_guard = 0;
static void on_signal(int sig) { if (g_in_guard) siglongjmp(g_jmp, sig); _exit(128 + sig); }
static void install_signal_guards() {
	struct sigaction sa; memset(&sa, 0, sizeof sa); sa.sa_handler = on_signal; sigemptyset(&sa.sa_mask); sa.sa_flags = SA_NODEFER;
	for (int s : {SIGFPE, SIGSEGV, SIGBUS, SIGILL, SIGABRT, SIGALRM}) sigaction(s, &sa, nullptr);
}
template <class F>
static std::string guarded(F f) {
	int sig = sigsetjmp(g_jmp, 1);
	if (sig != 0) { alarm(0); g_in_guard = 0; return "!SIG" + std::to_string(sig); }
	g_in_guard = 1;
	alarm(2);          // watchdog: an operation that does not return within seconds is reported as !SIG14 (non-termination)
	std::string r;
	try { r = f(); }
	catch (const std::exception& e) { r = std::string("!") + typeid(e).name(); }
	catch (...) { r = "!unknown"; }
	alarm(0);
	g_in_guard = 0;
	return r;
}

inline std::vector<bool> Runner::gen(Rng& g) {
	unsigned n = nbits;
	std::vector<bool> b(n, false);
	switch (g.below(12)) {
	case 0: break;                                              // 0
	case 1: b[0] = true; break;                                 // 1
	case 2: for (unsigned i = 0; i < n; ++i) b[i] = true; break;       // all ones (-1)
	case 3: b[n - 1] = true; break;                             // sign bit only (min)
	case 4: for (unsigned i = 0; i + 1 < n; ++i) b[i] = true; break;   // max positive
	case 5: b[n - 1] = true; b[0] = true; break;                // min + 1
	case 6: case 7: for (unsigned i = 0; i < n; ++i) b[i] = g.below(2); break;     // uniform
	case 8: {                                                   // small magnitude, sign extended
		unsigned k = 1 + (unsigned)g.below(n);
		bool neg = g.below(2);
		for (unsigned i = 0; i < n; ++i) b[i] = (i < k) ? (bool)g.below(2) : neg;
		break; }
	case 9: {                                                   // sparse: few set bits
		unsigned k = 1 + (unsigned)g.below(3);
		for (unsigned j = 0; j < k; ++j) b[g.below(n)] = true;
		break; }
	case 10: {                                                  // run of ones at a random position (carry chains)
		unsigned lo = (unsigned)g.below(n), len = 1 + (unsigned)g.below(n - lo);
		for (unsigned i = lo; i < lo + len && i < n; ++i) b[i] = true;
		break; }
	default: {                                                  // random high part, zero low part
		unsigned k = (unsigned)g.below(n);
		for (unsigned i = k; i < n; ++i) b[i] = g.below(2);
		break; }
	}
	return b;
}

static std::vector<bool> related(Rng& g, Runner& r, const std::vector<bool>& a) {
	unsigned n = r.nbits;
	std::vector<bool> b = a;
	auto add1 = [&](std::vector<bool>& v, bool up) {
		bool c = true;
		for (unsigned i = 0; i < n && c; ++i) { bool t = v[i]; v[i] = !t; c = up ? t : !t; }
	};
	auto negate = [&](std::vector<bool>& v) { for (unsigned i = 0; i < n; ++i) v[i] = !v[i]; add1(v, true); };
	switch (g.below(10)) {
	case 0: return b;
	case 1: negate(b); return b;
	case 2: add1(b, true); return b;
	case 3: add1(b, false); return b;
	case 4: for (unsigned i = 0; i < n; ++i) b[i] = !b[i]; return b;      // bitwise complement
	case 5: b[n - 1] = !b[n - 1]; return b;                               // flip the sign bit
	default: return r.gen(g);
	}
}

static bool g_int_only = false;               // group "intconv": native integer conversions only
static int g_op_lo = 0, g_op_hi = 1 << 30;    // op filter (groups "from" / "to")
static std::string parse_group(int argc, char** argv, const std::string& dflt) {
	std::string grp = dflt;
	for (int i = 1; i + 1 < argc; ++i) if (std::string(argv[i]) == "--group") grp = argv[i + 1];
	if (grp == "from") { g_op_lo = OP_from_f32; g_op_hi = OP_from_f80; return "conv"; }
	if (grp == "to") { g_op_lo = OP_to_f64; g_op_hi = OP_to_f80; return "conv"; }
	if (grp == "intconv") { g_int_only = true; return "conv"; }
	return grp;
}
#ifdef SAN_TRACE
// C20: sanitizer builds.  The UBSan / ASan runtimes call these hooks when they are about to print a report; the report becomes
// part of the case's result ("!ubsan:<kind>@<file>:<line>") so that it is attributed to the operands that triggered it.
static std::string g_curcase, g_ubhit;
extern "C" void __ubsan_get_current_report_data(const char** kind, const char** msg, const char** file, unsigned* line, unsigned* col, char** addr);
extern "C" void __ubsan_on_report(void) {
	const char *k = "", *m = "", *f = ""; unsigned l = 0, c = 0; char* a = nullptr;
	__ubsan_get_current_report_data(&k, &m, &f, &l, &c, &a);
	const char* base = strrchr(f, '/'); base = base ? base + 1 : f;
	if (g_ubhit.empty()) g_ubhit = std::string("!ubsan:") + k + "@" + base + ":" + std::to_string(l);
	fprintf(stderr, "UBSAN-CASE %s\n", g_curcase.c_str());
}
extern "C" void __asan_on_error(void) { fprintf(stderr, "ASAN-CASE %s\n", g_curcase.c_str()); }
#endif
static void emit_case(Runner& r, int op, const std::vector<std::string>& a) {
	if (op < g_op_lo || op > g_op_hi) return;
	if (g_int_only && op != OP_from_int && op != OP_from_uint && op != OP_to_int) return;
	// after three watchdog hits for one (configuration, operation) the remaining cases are reported as timed out
	// without being run (each hit costs seconds)
	static std::map<std::pair<Runner*, int>, int> hits;
	std::string res;
	if (hits[{&r, op}] >= 3) res = "!SIG14";
	else {
#ifdef SAN_TRACE
		g_curcase = std::to_string(r.fam) + " " + r.cfg + " " + std::to_string(op) + " ";
		for (size_t i = 0; i < a.size(); ++i) g_curcase += (i ? "," : "") + a[i];
		g_ubhit.clear();
#endif
		res = r.run(op, a); if (res == "!SIG14") ++hits[{&r, op}];
#ifdef SAN_TRACE
		if (!g_ubhit.empty()) res = g_ubhit;
#endif
	}
	printf("%d %s %d ", r.fam, r.cfg.c_str(), op);
	if (a.empty()) printf("-");
	for (size_t i = 0; i < a.size(); ++i) printf("%s%s", i ? "," : "", a[i].c_str());
	printf(" %s\n", res.empty() ? "-" : res.c_str());
}

static int drv_main(int argc, char** argv) {
	Args A = parse_args(argc, argv);
#ifndef NO_SIGNAL_GUARDS
	install_signal_guards();
#endif
	// the library reports some conditions on std::cerr, which is tied to std::cout: every such message would flush
	// stdout and could block on a full pipe inside the watchdog window
	std::cerr.tie(nullptr);
	if (A.mode == "exh") {
		for (auto& r : g_runners) {
			if (!r->small) continue;
			Rng g(A.seed + 77);
			auto em = [&](int op, std::vector<std::string> a) { emit_case(*r, op, a); };
			uint64_t NN = 1ull << r->nbits;
			for (uint64_t a = A.shard; a < NN; a += A.nshards) {
				std::string ha = hex64(a);
				for (int op : r->ops1) emit_case(*r, op, {ha});
				r->extra(ha, g, em);
				if (!r->ops2.empty())
					for (uint64_t b = 0; b < NN; ++b) {
						std::string hb = hex64(b);
						for (int op : r->ops2) emit_case(*r, op, {ha, hb});
					}
			}
		}
	} else if (A.mode == "rnd") {
		unsigned idx = 0;
		for (auto& r : g_runners) {
			if (r->small) continue;
			if ((idx++ % A.nshards) != A.shard) continue;
			uint64_t h = 1469598103934665603ull;
			for (char c : r->cfg) h = (h ^ (unsigned char)c) * 1099511628211ull;
			Rng g(A.seed * 0x100000001b3ull + h + r->fam);
			auto em = [&](int op, std::vector<std::string> a) { emit_case(*r, op, a); };
			for (uint64_t i = 0; i < A.count; ++i) {
				auto a = r->gen(g);
				auto b = related(g, *r, a);
				std::string ha = hex_of_vec(a), hb = hex_of_vec(b);
				for (int op : r->ops1) emit_case(*r, op, {ha});
				r->extra(ha, g, em);
				for (int op : r->ops2) emit_case(*r, op, {ha, hb});
			}
		}
	} else if (A.mode == "cases") {
		char buf[8192];
		while (fgets(buf, sizeof buf, stdin)) {
			int fam, op; char cfg[256], args[4096];
			if (sscanf(buf, "%d %255s %d %4095s", &fam, cfg, &op, args) != 4) continue;
			std::vector<std::string> a;
			if (strcmp(args, "-") != 0) { char* save; for (char* t = strtok_r(args, ",", &save); t; t = strtok_r(nullptr, ",", &save)) a.push_back(t); }
			bool done = false;
			for (auto& r : g_runners) if (!done && r->fam == fam && r->cfg == cfg) { emit_case(*r, op, a); done = true; }
			if (!done) printf("# no configuration %d %s in this driver\n", fam, cfg);
		}
	} else if (A.mode == "list") {
		for (auto& r : g_runners) printf("# %d %s nbits=%u small=%d\n", r->fam, r->cfg.c_str(), r->nbits, (int)r->small);
	}
	return 0;
}

// ---------------------------------------------------------------- native conversions
static inline uint64_t hexu64(const std::string& s) { return strtoull(s.c_str(), nullptr, 16); }

// Tr: struct with static T mk(const std::string&), static std::string out(const T&)
template <class T, class Tr, bool I8 = true>
static std::string native_conv(int op, const std::vector<std::string>& a) {
	switch (op) {
	case OP_from_f64: { T x; x = f64from(hexu64(a[0])); return Tr::out(x); }
	case OP_from_f32: { T x; x = f32from((uint32_t)hexu64(a[0])); return Tr::out(x); }
	case OP_from_int: {
		uint64_t w = hexu64(a[0]), b = hexu64(a[1]); T x;
		// an overload that does not exist (or is ambiguous) for this type is reported as unsupported, not guessed
#define ASSIGN_IF(TYPE, EXPR) if constexpr (requires(T t, TYPE v) { t = v; }) { x = (TYPE)(EXPR); } else return "?unsupported"
		switch (w) {
		case 8: if constexpr (I8) { ASSIGN_IF(signed char, (int8_t)b); break; } else return "?";
		case 16: ASSIGN_IF(short, (int16_t)b); break;
		case 32: ASSIGN_IF(int, (int32_t)b); break;
		case 65: ASSIGN_IF(long, (int64_t)b); break;
		default: ASSIGN_IF(long long, (int64_t)b); break;
		}
		return Tr::out(x); }
	case OP_from_uint: {
		uint64_t w = hexu64(a[0]), b = hexu64(a[1]); T x;
		switch (w) {
		case 16: ASSIGN_IF(unsigned short, b); break;
		case 32: ASSIGN_IF(unsigned int, b); break;
		case 65: ASSIGN_IF(unsigned long, b); break;
		default: ASSIGN_IF(unsigned long long, b); break;
		}
#undef ASSIGN_IF
		return Tr::out(x); }
	case OP_to_f64: return hex64(f64bits(double(Tr::mk(a[0]))));
	case OP_to_f32: return hex64(f32bits(float(Tr::mk(a[0]))));
	case OP_to_f64_rt: { T x = Tr::mk(a[0]); double d = double(x); T y; y = d; return Tr::out(y); }
	case OP_to_int: {
		uint64_t w = hexu64(a[0]); T x = Tr::mk(a[1]);
		if (w == 32) return hex64((uint32_t)(int)x);
		return hex64((uint64_t)(long long)x); }
	default: return "?";
	}
}

// C06: std::numeric_limits<T> members as encodings: [max, lowest, min, epsilon, denorm_min] (integers: [max, lowest])
template <class T, class Tr>
static std::string limits_of(bool integer_like) {
	using L = std::numeric_limits<T>;
	std::string s = Tr::out(L::max()) + "," + Tr::out(L::lowest());
	if (!integer_like) { s += "," + Tr::out(L::min()); s += "," + Tr::out(L::epsilon()); s += "," + Tr::out(L::denorm_min()); }
	return s;
}

// sources aimed at the lattice of the target: v = value of encoding a, v2 = value of the next encoding
static void native_sources(double v, double v2, bool first, Rng& g,
                           const std::function<void(int, std::vector<std::string>)>& emit, bool i8 = true) {
	auto f64 = [&](double d) { emit(OP_from_f64, {hex64(f64bits(d))}); float f = (float)d; if ((double)f == d || d != d) emit(OP_from_f32, {hex64(f32bits(f))}); };
	auto i64 = [&](double d) {
		if (!(d > -9.2e18 && d < 9.2e18)) return;
		long long z = (long long)d;
		for (long long zz : {z, z + 1, z - 1}) {
			emit(OP_from_int, {"40", hex64((uint64_t)zz)});
			if (zz >= INT32_MIN && zz <= INT32_MAX) emit(OP_from_int, {"20", hex64((uint32_t)(int32_t)zz)});
			if (zz >= INT16_MIN && zz <= INT16_MAX) emit(OP_from_int, {"10", hex64((uint16_t)(int16_t)zz)});
			if (i8 && zz >= INT8_MIN && zz <= INT8_MAX) emit(OP_from_int, {"8", hex64((uint8_t)(int8_t)zz)});
			if (zz >= 0) {
				emit(OP_from_uint, {"40", hex64((uint64_t)zz)});
				if (zz <= UINT32_MAX) emit(OP_from_uint, {"20", hex64((uint64_t)zz)});
				if (zz <= UINT16_MAX) emit(OP_from_uint, {"10", hex64((uint64_t)zz)});
			}
		}
	};
	if (v == v) {
		f64(v); f64(nextafter(v, INFINITY)); f64(nextafter(v, -INFINITY));
		if (v2 == v2 && !std::isinf(v2) && !std::isinf(v)) {
			double mid = v / 2 + v2 / 2;
			f64(mid); f64(nextafter(mid, INFINITY)); f64(nextafter(mid, -INFINITY));
			f64(v + (v2 - v) * 0.25); f64(v + (v2 - v) * 0.75);
			float fm = (float)mid;   // float-typed sources around the same tie
			emit(OP_from_f32, {hex64(f32bits(fm))});
			emit(OP_from_f32, {hex64(f32bits(nextafterf(fm, INFINITY)))});
			emit(OP_from_f32, {hex64(f32bits(nextafterf(fm, -INFINITY)))});
		}
		i64(v);
	}
	if (first) {
		const uint64_t specials[] = {0x0ull, 0x8000000000000000ull, 0x7ff0000000000000ull, 0xfff0000000000000ull,
			0x7ff8000000000000ull, 0xfff8000000000000ull, 0x7ff0000000000001ull, 0xfff4000000000001ull,
			0x7fefffffffffffffull, 0xffefffffffffffffull, 0x0010000000000000ull, 0x8010000000000000ull,
			0x0000000000000001ull, 0x8000000000000001ull, 0x000fffffffffffffull, 0x0008000000000000ull,
			0x3ff0000000000000ull, 0xbff0000000000000ull, 0x7e37e43c8800759cull /*1e300*/, 0x01a56e1fc2f8f359ull /*1e-300*/,
			0x36a0000000000000ull /* 2^-149 */, 0x3690000000000000ull /* 2^-150 */, 0x380fffffe0000000ull /* just below FLT_MIN */};
		for (uint64_t s : specials) emit(OP_from_f64, {hex64(s)});
		const uint32_t fspecials[] = {0x0u, 0x80000000u, 0x7f800000u, 0xff800000u, 0x7fc00000u, 0xffc00000u, 0x7f800001u,
			0xffa00001u, 0x7f7fffffu, 0xff7fffffu, 0x00800000u, 0x80800000u, 0x00000001u, 0x80000001u, 0x007fffffu, 0x00400000u,
			0x3f800000u, 0xbf800000u};
		for (uint32_t s : fspecials) emit(OP_from_f32, {hex64(s)});
		const int64_t ispecials[] = {0, 1, -1, 127, 128, -128, -129, 255, 256, 32767, 32768, -32768, 65535, 65536,
			(1ll << 24) - 1, 1ll << 24, (1ll << 24) + 1, (1ll << 31) - 1, 1ll << 31, -(1ll << 31), (1ll << 32) - 1, 1ll << 32,
			(1ll << 53) - 1, 1ll << 53, (1ll << 53) + 1, (1ll << 62), INT64_MAX, INT64_MIN, INT64_MIN + 1, 1000, -1000, 1000000007ll};
		for (int64_t z : ispecials) {
			emit(OP_from_int, {"40", hex64((uint64_t)z)}); emit(OP_from_int, {"41", hex64((uint64_t)z)});
			if (z >= INT32_MIN && z <= INT32_MAX) emit(OP_from_int, {"20", hex64((uint32_t)(int32_t)z)});
			if (z >= 0) emit(OP_from_uint, {"40", hex64((uint64_t)z)});
		}
		const uint64_t uspecials[] = {1ull << 63, (1ull << 63) + 1, UINT64_MAX, UINT64_MAX - 1, (1ull << 63) + (1ull << 10), 0xffffffffull, 0x80000000ull};
		for (uint64_t z : uspecials) { emit(OP_from_uint, {"40", hex64(z)}); emit(OP_from_uint, {"41", hex64(z)}); if (z <= UINT32_MAX) emit(OP_from_uint, {"20", hex64(z)}); }
	}
	// a few random doubles / floats with random exponents near the format's range
	(void)g;
}
