// C20 (second half): operations on distinct objects from different threads are free of data races and give the same
// results as sequential execution.  Every worker runs a deterministic straight-line program (arithmetic, comparisons,
// conversions, text IO) on its own objects; the per-worker digests of a threaded execution are compared with those of a
// sequential execution of the same programs.  Built with -fsanitize=thread: a race on shared library state (statistics
// counters, trace flags, static tables) is reported by the TSan runtime on stderr.
#include <universal/number/posit/posit.hpp>
#include <universal/number/cfloat/cfloat.hpp>
#include <universal/number/fixpnt/fixpnt.hpp>
#include <universal/number/integer/integer.hpp>
#include <universal/number/lns/lns.hpp>
#include <universal/number/areal/areal.hpp>
#include <universal/number/dd/dd.hpp>
#include <universal/number/qd/qd.hpp>
#include <universal/number/einteger/einteger.hpp>
#include <universal/number/edecimal/edecimal.hpp>
#include <universal/number/erational/erational.hpp>
#include <universal/number/posit/fdp.hpp>
#include <thread>
#include <sstream>
#include "common.hpp"
using namespace sw::universal;

static inline void mix(uint64_t& h, uint64_t v) { h ^= v + 0x9e3779b97f4a7c15ull + (h << 6) + (h >> 2); }
static inline void mixs(uint64_t& h, const std::string& s) { for (char c : s) mix(h, (unsigned char)c); }

template <class T> static uint64_t bits_of(const T& v, unsigned n) { uint64_t r = 0; for (unsigned i = 0; i < n && i < 64; ++i) if (v.at(i)) r |= 1ull << i; return r; }

template <class T> static T fromd(double d) { T t; t = d; return t; }

// generic arithmetic program for the bit-addressable fixed-size types
template <class T, unsigned N>
static uint64_t prog_fixed(uint64_t seed, unsigned steps) {
	Rng g(seed); uint64_t h = seed;
	T acc; acc = 1.0;
	for (unsigned i = 0; i < steps; ++i) {
		T a, b; a.setbits(g.next()); b.setbits(g.next());
		T r;
		try {
			switch (g.below(8)) {
			case 0: r = a + b; break;
			case 1: r = a - b; break;
			case 2: r = a * b; break;
			case 3: r = a / b; break;
			case 4: r = T(double(a)); break;
			case 5: r = fromd<T>((double)(int64_t)g.next() / 65536.0); break;
			case 6: r = a; r += acc; break;
			default: r = (a < b) ? a : b; break;
			}
		} catch (const std::exception&) { r = a; mix(h, 0xE); }
		acc = r;
		mix(h, bits_of(r, N));
		if ((i & 15) == 0) { std::stringstream ss; ss << r << ' ' << to_binary(r); mixs(h, ss.str()); }
	}
	return h;
}
static uint64_t prog_posit(uint64_t seed, unsigned steps) {
	using P = posit<16, 1>; Rng g(seed); uint64_t h = seed;
	quire<16, 1, 2> q;
	for (unsigned i = 0; i < steps; ++i) {
		P a, b; a.setbits(g.next() & 0xffff); b.setbits(g.next() & 0xffff);
		if (a.isnar()) a.setzero(); if (b.isnar()) b.setzero();
		P r;
		switch (g.below(8)) {
		case 0: r = a + b; break; case 1: r = a - b; break; case 2: r = a * b; break;
		case 3: r = b.iszero() ? a : a / b; break;
		case 4: r = sqrt(abs(a)); break; case 5: r = P(double(a) * 0.75); break;
		case 6: q += quire_mul(a, b); convert(q.to_value(), r); if (i % 64 == 0) q.clear(); break;
		default: { std::string s = hex_format(a); P t; parse(s, t); r = t; mixs(h, s); } break;
		}
		mix(h, r.get().to_ullong());
	}
	return h;
}
static uint64_t prog_integer(uint64_t seed, unsigned steps) {
	using I = integer<96, uint32_t>; Rng g(seed); uint64_t h = seed;
	for (unsigned i = 0; i < steps; ++i) {
		I a, b; a.setbits(g.next()); b.setbits(g.next() >> (g.below(60)));
		a <<= (int)g.below(30); if (g.below(2)) a = -a;
		I r;
		switch (g.below(7)) {
		case 0: r = a + b; break; case 1: r = a - b; break; case 2: r = a * b; break;
		case 3: r = b.iszero() ? a : a / b; break; case 4: r = b.iszero() ? a : a % b; break;
		case 5: { std::string s = to_string(a); I t; parse(s, t); r = t; mixs(h, s); } break;   // parse() uses a static table
		default: r = a >> (int)g.below(40); break;
		}
		for (unsigned k = 0; k < 3; ++k) mix(h, r.block(k));
	}
	return h;
}
static uint64_t prog_lns(uint64_t seed, unsigned steps) {
	using L = lns<16, 8, uint16_t>; Rng g(seed); uint64_t h = seed;
	for (unsigned i = 0; i < steps; ++i) {
		L a, b; a.setbits(g.next() & 0xffff); b.setbits(g.next() & 0xffff);
		L r;
		try {
			switch (g.below(6)) {
			case 0: r = a + b; break; case 1: r = a - b; break; case 2: r = a * b; break; case 3: r = a / b; break;
			case 4: r = L((double)(g.next() % 100000) / 37.0); break;     // conversion path: lnsStats
			default: r = L(double(a)); break;
			}
		} catch (const std::exception&) { r = a; }
		mix(h, bits_of(r, 16));
	}
	return h;
}
static uint64_t prog_ddqd(uint64_t seed, unsigned steps) {
	Rng g(seed); uint64_t h = seed;
	dd acc(1.0); qd qacc(1.0);
	for (unsigned i = 0; i < steps; ++i) {
		double x = (double)(int64_t)g.next() / 4294967296.0, y = 1.0 + (double)(g.next() >> 12) / 4503599627370496.0;
		dd a(x), b(y); qd qa(x), qb(y);
		switch (g.below(5)) {
		case 0: acc = a + b * acc; qacc = qa + qb * qacc; break;
		case 1: acc = a - b; qacc = qa - qb; break;
		case 2: acc = a * b; qacc = qa * qb; break;
		case 3: acc = a / b; qacc = qa / qb; break;
		default: acc = sqrt(b); qacc = sqrt(qb); break;
		}
		if (!(double(acc) < 1e100 && double(acc) > -1e100)) { acc = 1.0; qacc = 1.0; }
		mix(h, f64bits(acc.high())); mix(h, f64bits(acc.low())); for (int k = 0; k < 4; ++k) mix(h, f64bits(qacc[k]));
		if ((i & 31) == 0) { std::stringstream ss; ss << acc << ' ' << qacc; mixs(h, ss.str()); }
	}
	return h;
}
static uint64_t prog_elastic(uint64_t seed, unsigned steps) {
	Rng g(seed); uint64_t h = seed;
	einteger<uint32_t> acc(1); edecimal dacc; dacc = 1; erational racc; racc = 1;
	for (unsigned i = 0; i < steps / 4 + 1; ++i) {
		long long x = (long long)(g.next() >> (g.below(40))) - (1ll << 20), y = (long long)(g.next() >> 40) + 1;
		einteger<uint32_t> a(x), b(y); edecimal da, db; da = x; db = y;
		switch (g.below(5)) {
		case 0: acc = acc * a + b; dacc = dacc * da + db; break;
		case 1: acc = acc - a; dacc = dacc - da; break;
		case 2: acc = acc / b; dacc = dacc / db; break;
		case 3: acc = acc % b; dacc = dacc % db; break;
		default: acc = a * b; dacc = da * db; break;
		}
		if (acc.limbs() > 12) { acc = 1; dacc = 1; }
		{ std::stringstream ss; ss << acc << ' ' << dacc; mixs(h, ss.str()); }
		if ((i & 7) == 0) { erational p, q2; p = x; q2 = y; racc = p / q2 + racc * q2; std::stringstream ss; ss << racc; mixs(h, ss.str()); if (ss.str().size() > 60) racc = 1; }
	}
	return h;
}

struct Prog { const char* name; uint64_t (*f)(uint64_t, unsigned); };
static Prog progs[] = {
	{"posit<16,1>+quire", prog_posit},
	{"cfloat<16,5>", prog_fixed<cfloat<16, 5, uint16_t, true, false, false>, 16>},
	{"cfloat<32,8,u8,sub,sup>", prog_fixed<cfloat<32, 8, uint8_t, true, true, false>, 32>},
	{"fixpnt<16,8,Saturate>", prog_fixed<fixpnt<16, 8, Saturate, uint8_t>, 16>},
	{"fixpnt<24,10,Modulo>", prog_fixed<fixpnt<24, 10, Modulo, uint16_t>, 24>},
	{"areal<16,5>", prog_fixed<areal<16, 5, uint8_t>, 16>},
	{"integer<96,u32>", prog_integer},
	{"lns<16,8>", prog_lns},
	{"dd+qd", prog_ddqd},
	{"einteger+edecimal+erational", prog_elastic},
};

int main(int argc, char** argv) {
	Args A = parse_args(argc, argv);
	unsigned nthreads = 8, steps = (unsigned)A.count;
	for (size_t i = 0; i < A.rest.size(); ++i) if (A.rest[i] == "--threads") nthreads = atoi(A.rest[i + 1].c_str());
	unsigned pi = 0;
	for (auto& p : progs) {
		if (pi++ % A.nshards != A.shard) continue;
		std::vector<uint64_t> seq(nthreads), par(nthreads);
		for (unsigned t = 0; t < nthreads; ++t) seq[t] = p.f(A.seed * 1000 + t, steps);
		std::vector<std::thread> th;
		for (unsigned t = 0; t < nthreads; ++t) th.emplace_back([&, t] { par[t] = p.f(A.seed * 1000 + t, steps); });
		for (auto& x : th) x.join();
		// and a mixed schedule: every thread runs a different type's program at the same time
		bool same = seq == par;
		printf("THREADS %s threads=%u steps=%u digest=%016llx %s\n", p.name, nthreads, steps, (unsigned long long)seq[0], same ? "same-as-sequential" : "MISMATCH");
	}
	if (A.shard == 0) {
		const unsigned NP = sizeof(progs) / sizeof(progs[0]);
		std::vector<uint64_t> seq(NP), par(NP);
		for (unsigned t = 0; t < NP; ++t) seq[t] = progs[t].f(A.seed * 77 + t, steps);
		std::vector<std::thread> th;
		for (unsigned t = 0; t < NP; ++t) th.emplace_back([&, t] { par[t] = progs[t].f(A.seed * 77 + t, steps); });
		for (auto& x : th) x.join();
		printf("THREADS mixed-types threads=%u steps=%u digest=%016llx %s\n", NP, steps, (unsigned long long)seq[0], seq == par ? "same-as-sequential" : "MISMATCH");
	}
	return 0;
}
