// C12: the same operation on the same values for every supported BlockType.  Each runner wraps the
// per-block-type runners of a family for one size; an operation is executed once per block type and the
// raw results must be identical ("!btdiff:<r_u8>/<r_u16>/..." otherwise); the common result is then also
// judged by the model, which has no block-type parameter at all.
#include <universal/number/cfloat/cfloat.hpp>
#include <universal/number/fixpnt/fixpnt.hpp>
#include <universal/number/integer/integer.hpp>
#include <universal/number/lns/lns.hpp>
#include <universal/number/areal/areal.hpp>
#include <cmath>
#include <tuple>
#include "drvkit.hpp"
namespace fx {
#define main fx_main
#include "drv_fixpnt.cpp"
#undef main
}
namespace in {
#define main in_main
#include "drv_integer.cpp"
#undef main
}
namespace cf {
#define main cf_main
#include "drv_cfloat.cpp"
#undef main
}
namespace ln {
#define main ln_main
#include "drv_lns.cpp"
#undef main
}
using namespace sw::universal;
namespace ar {
#define main ar_main
#include "drv_areal.cpp"
#undef main
}

template <class... Rs>
struct Multi : Runner {
	std::tuple<Rs...> rs;
	Multi() : rs(Rs(false)...) {
		Runner& f = std::get<0>(rs);
		fam = f.fam; nbits = f.nbits; ops1 = f.ops1; ops2 = f.ops2; small = (f.nbits <= 9);
		cfg = f.cfg.substr(0, f.cfg.rfind(',')) + ",0";      // block type field = 0: "all of them"
	}
	std::string run(int op, const std::vector<std::string>& a) override {
		std::vector<std::string> r;
		std::apply([&](auto&... x) { (r.push_back(x.run(op, a)), ...); }, rs);
		bool same = true;
		for (auto& s : r) same = same && (s == r[0]);
		if (same) return r[0];
		std::string d = "!btdiff:";
		for (size_t i = 0; i < r.size(); ++i) d += (i ? "/" : "") + r[i];
		return d;
	}
	void extra(const std::string& ha, Rng& g, const std::function<void(int, std::vector<std::string>)>& emit) override {
		std::get<0>(rs).extra(ha, g, emit);
	}
	std::vector<bool> gen(Rng& g) override { return std::get<0>(rs).gen(g); }
};

template <unsigned N> static void regInteger() {
	if constexpr (N <= 64) g_runners.emplace_back(new Multi<in::R<N, uint8_t>, in::R<N, uint16_t>, in::R<N, uint32_t>, in::R<N, uint64_t>>());
	else g_runners.emplace_back(new Multi<in::R<N, uint8_t>, in::R<N, uint16_t>, in::R<N, uint32_t>>());
}
template <unsigned N, unsigned RB> static void regFixpnt() {
	g_runners.emplace_back(new Multi<fx::R<N, RB, Modulo, uint8_t>, fx::R<N, RB, Modulo, uint16_t>, fx::R<N, RB, Modulo, uint32_t>>());
	g_runners.emplace_back(new Multi<fx::R<N, RB, Saturate, uint8_t>, fx::R<N, RB, Saturate, uint16_t>, fx::R<N, RB, Saturate, uint32_t>>());
}
template <unsigned N, unsigned ES> static void regCfloat() {
	g_runners.emplace_back(new Multi<cf::R<N, ES, uint8_t, true, false, false>, cf::R<N, ES, uint16_t, true, false, false>, cf::R<N, ES, uint32_t, true, false, false>>());
	g_runners.emplace_back(new Multi<cf::R<N, ES, uint8_t, false, true, true>, cf::R<N, ES, uint16_t, false, true, true>, cf::R<N, ES, uint32_t, false, true, true>>());
}
template <unsigned N, unsigned RB> static void regLns() {
	g_runners.emplace_back(new Multi<ln::R<N, RB, uint8_t, Behavior::Saturating>, ln::R<N, RB, uint16_t, Behavior::Saturating>, ln::R<N, RB, uint32_t, Behavior::Saturating>>());
}
template <unsigned N, unsigned ES> static void regAreal() {
	g_runners.emplace_back(new Multi<ar::R<N, ES, uint8_t>, ar::R<N, ES, uint16_t>, ar::R<N, ES, uint32_t>>());
}

int main(int argc, char** argv) {
	std::string grp = parse_group(argc, argv, "arith");
	fx::g_group = in::g_group = cf::g_group = ln::g_group = grp;
	ar::g_group = "conv";
	std::string famsel = "all";
	for (int i = 1; i + 1 < argc; ++i) if (std::string(argv[i]) == "--fam") famsel = argv[i + 1];
#if PART == 0
	if (famsel == "all" || famsel == "integer") {
		regInteger<7>(); regInteger<8>(); regInteger<9>(); regInteger<15>(); regInteger<16>(); regInteger<17>(); regInteger<24>();
		regInteger<31>(); regInteger<32>(); regInteger<33>(); regInteger<48>(); regInteger<63>(); regInteger<64>(); regInteger<65>(); regInteger<96>();
	}
#elif PART == 1
	if (famsel == "all" || famsel == "fixpnt") {
		regFixpnt<7, 3>(); regFixpnt<8, 4>(); regFixpnt<9, 4>(); regFixpnt<15, 7>(); regFixpnt<16, 8>(); regFixpnt<17, 8>(); regFixpnt<24, 12>();
		regFixpnt<31, 15>(); regFixpnt<32, 16>(); regFixpnt<33, 16>(); regFixpnt<48, 24>(); regFixpnt<64, 32>();
	}
#elif PART == 2
	if (famsel == "all" || famsel == "cfloat") {
		regCfloat<9, 3>(); regCfloat<15, 5>(); regCfloat<16, 5>(); regCfloat<17, 5>(); regCfloat<24, 8>(); regCfloat<31, 8>(); regCfloat<32, 8>(); regCfloat<33, 8>();
	}
#else
	if (famsel == "all" || famsel == "lns") {
		regLns<8, 3>(); regLns<9, 4>(); regLns<15, 7>(); regLns<16, 8>(); regLns<17, 8>(); regLns<24, 10>(); regLns<31, 12>(); regLns<32, 12>(); regLns<33, 12>();
	}
	if (famsel == "all" || famsel == "areal") {
		regAreal<9, 3>(); regAreal<15, 5>(); regAreal<16, 5>(); regAreal<17, 5>(); regAreal<24, 8>(); regAreal<31, 8>(); regAreal<32, 8>();
	}
#endif
	return drv_main(argc, argv);
}
