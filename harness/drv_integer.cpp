// Correspondence driver for integer<nbits, bt>.
// groups: arith (+ - * / % neg shifts), logic (& | ^ ~), cmp (comparisons, ++ --), conv (native + size conversions)
#ifdef THROWING
#define INTEGER_THROW_ARITHMETIC_EXCEPTION 1
#endif
#include <universal/number/integer/integer.hpp>
#include <cmath>
#include "drvkit.hpp"
using namespace sw::universal;

static std::string g_group = "arith";
static const int SHIFT_BIAS = 1024;

template <unsigned N, typename BT>
struct R : Runner {
	using T = integer<N, BT>;
	struct Tr {
		static T mk(const std::string& h) { return mk_bits<T>(h, N); }
		static std::string out(const T& v) { return out_bits(v, N); }
	};
	R(bool sm) {
		fam = FAM_integer; nbits = N; small = sm;
		cfg = std::to_string(N) + "," + std::to_string(8 * sizeof(BT));
		if (g_group == "arith") { ops1 = {OP_neg}; ops2 = {OP_add, OP_sub, OP_mul, OP_div, OP_rem}; }
		if (g_group == "logic") { ops1 = {OP_bnot}; ops2 = {OP_band, OP_bor, OP_bxor}; }
		if (g_group == "cmp") { ops1 = {OP_inc, OP_dec}; ops2 = {OP_eq, OP_ne, OP_lt, OP_le, OP_gt, OP_ge}; }
		if (g_group == "conv") { ops1 = {OP_to_f64, OP_to_f64_rt}; }
		if (g_group == "sqrt") { ops1 = {OP_sqrt}; }
	}
	std::string run(int op, const std::vector<std::string>& a) override {
		return guarded([&]() -> std::string {
			if (op == OP_limits) return limits_of<T, Tr>(true);
			if (op >= OP_from_f32 && op <= OP_to_f80) return native_conv<T, Tr>(op, a);
			T x = Tr::mk(a[0]);
			switch (op) {
			case OP_add: return Tr::out(x + Tr::mk(a[1]));
			case OP_sub: return Tr::out(x - Tr::mk(a[1]));
			case OP_mul: return Tr::out(x * Tr::mk(a[1]));
			case OP_div: return Tr::out(x / Tr::mk(a[1]));
			case OP_rem: return Tr::out(x % Tr::mk(a[1]));
			case OP_neg: return Tr::out(-x);
			case OP_sqrt: return Tr::out(sqrt(x));
			case OP_shl: { x <<= (int)hexu64(a[1]) - SHIFT_BIAS; return Tr::out(x); }
			case OP_shr: { x >>= (int)hexu64(a[1]) - SHIFT_BIAS; return Tr::out(x); }
			case OP_band: return Tr::out(x & Tr::mk(a[1]));
			case OP_bor: return Tr::out(x | Tr::mk(a[1]));
			case OP_bxor: return Tr::out(x ^ Tr::mk(a[1]));
			case OP_bnot: return Tr::out(~x);
			case OP_inc: { ++x; return Tr::out(x); }
			case OP_dec: { --x; return Tr::out(x); }
			case OP_eq: return b01(x == Tr::mk(a[1]));
			case OP_ne: return b01(x != Tr::mk(a[1]));
			case OP_lt: return b01(x < Tr::mk(a[1]));
			case OP_le: return b01(x <= Tr::mk(a[1]));
			case OP_gt: return b01(x > Tr::mk(a[1]));
			case OP_ge: return b01(x >= Tr::mk(a[1]));
			default: return "?";
			}
		});
	}
	void extra(const std::string& ha, Rng& g, const std::function<void(int, std::vector<std::string>)>& emit) override {
		if (g_group == "cmp" && ha.find_first_not_of('0') == std::string::npos) emit(OP_limits, {});
		if (g_group == "arith") {
			if (small) {
				for (int k = -(int)N - 1; k <= (int)N + 1; ++k) { emit(OP_shl, {ha, hex64(k + SHIFT_BIAS)}); emit(OP_shr, {ha, hex64(k + SHIFT_BIAS)}); }
			} else {
				const int ks[] = {0, 1, -1, (int)N - 1, (int)N, (int)N + 1, -(int)N, -(int)N - 1, 8, 16, 32, 64, 7, 9, 31, 33,
				                  (int)g.below(N + 2), -(int)g.below(N + 2)};
				for (int k : ks) if (k >= -(int)N - 1 && k <= (int)N + 1) { emit(OP_shl, {ha, hex64(k + SHIFT_BIAS)}); emit(OP_shr, {ha, hex64(k + SHIFT_BIAS)}); }
			}
		}
		if (g_group == "conv") {
			bool first = ha.find_first_not_of('0') == std::string::npos;
			T x = Tr::mk(ha);
			double v = double(x);
			native_sources(v, v + 1, first, g, emit);
			emit(OP_to_int, {"40", ha});
			emit(OP_to_int, {"20", ha});
			// fractional / huge floating sources: truncation toward zero, then wrap
			for (double d : {v + 0.5, v - 0.5, v + 0.999, v * 1.5 + 0.25, std::ldexp(1.0, (int)N - 1), -std::ldexp(1.0, (int)N - 1) - 1.0, std::ldexp(1.0, (int)N) + 3.0})
				emit(OP_from_f64, {hex64(f64bits(d))});
		}
	}
};

template <unsigned N, typename BT> static void reg(bool sm) { g_runners.emplace_back(new R<N, BT>(sm)); }

int main(int argc, char** argv) {
	g_group = parse_group(argc, argv, g_group);
#ifndef NO_SMALL
	reg<4, uint8_t>(true); reg<5, uint8_t>(true); reg<6, uint8_t>(true); reg<7, uint8_t>(true); reg<8, uint8_t>(true);
	reg<8, uint16_t>(true); reg<7, uint16_t>(true); reg<8, uint32_t>(true);
#endif
#ifdef WITH_MID
	reg<9, uint8_t>(true); reg<10, uint8_t>(true); reg<9, uint16_t>(true); reg<10, uint32_t>(true);
#endif
#ifndef NO_LARGE
	reg<12, uint8_t>(false); reg<15, uint8_t>(false); reg<16, uint8_t>(false); reg<16, uint16_t>(false); reg<17, uint8_t>(false); reg<17, uint16_t>(false);
	reg<24, uint8_t>(false); reg<31, uint16_t>(false); reg<32, uint8_t>(false); reg<32, uint16_t>(false); reg<32, uint32_t>(false); reg<33, uint32_t>(false);
	reg<48, uint16_t>(false); reg<63, uint32_t>(false); reg<64, uint8_t>(false); reg<64, uint32_t>(false); reg<64, uint64_t>(false);
	reg<65, uint32_t>(false); reg<65, uint64_t>(false); reg<127, uint32_t>(false); reg<128, uint8_t>(false); reg<128, uint32_t>(false); reg<128, uint64_t>(false);
	reg<129, uint64_t>(false); reg<256, uint32_t>(false);
#endif
	return drv_main(argc, argv);
}
