// C15: conversions between configurations of the same family (converting constructors / assignment) and the
// posit <-> integer adapters.  One runner per ordered (source, target) pair; cfg = source cfg ++ target cfg.
#include <universal/number/posit/posit.hpp>
#include <universal/number/cfloat/cfloat.hpp>
#include <universal/number/fixpnt/fixpnt.hpp>
#include <universal/number/integer/integer.hpp>
#include <universal/number/lns/lns.hpp>
#include <universal/adapters/adapt_integer_and_posit.hpp>
#include "drvkit.hpp"
#include "posit_gen.hpp"
using namespace sw::universal;

template <unsigned N1, unsigned E1, unsigned N2, unsigned E2>
struct PP : Runner {
	PP() { fam = FAM_posit; nbits = N1; small = (N1 <= 12); ops1 = {OP_conv};
		cfg = std::to_string(N1) + "," + std::to_string(E1) + "," + std::to_string(N2) + "," + std::to_string(E2); }
	std::string run(int op, const std::vector<std::string>& a) override {
		return guarded([&]() -> std::string {
			posit<N1, E1> x; x.setbits(hexu64(a[0]));
			posit<N2, E2> y(x);
			auto bb = y.get(); return hex_from_bits(N2, [&](unsigned i) { return bb.test(i); }); });
	}
	std::vector<bool> gen(Rng& g) override { return gen_operand(g, N1); }
};
template <unsigned N1, unsigned E1, bool S1, bool U1, bool T1, unsigned N2, unsigned E2, bool S2, bool U2, bool T2>
struct CC : Runner {
	CC() { fam = FAM_cfloat; nbits = N1; small = (N1 <= 12); ops1 = {OP_conv};
		auto c = [](unsigned n, unsigned e, bool s, bool u, bool t) { return std::to_string(n) + "," + std::to_string(e) + "," + (s ? "1" : "0") + "," + (u ? "1" : "0") + "," + (t ? "1" : "0") + ",8"; };
		cfg = c(N1, E1, S1, U1, T1) + "," + c(N2, E2, S2, U2, T2); }
	std::string run(int op, const std::vector<std::string>& a) override {
		return guarded([&]() -> std::string {
			using A = cfloat<N1, E1, uint8_t, S1, U1, T1>; using B = cfloat<N2, E2, uint8_t, S2, U2, T2>;
			A x = mk_bits<A>(a[0], N1);
			B y(x);
			return out_bits(y, N2); });
	}
};
template <unsigned N1, unsigned R1, unsigned N2, unsigned R2, bool AR>
struct FF : Runner {
	FF() { fam = FAM_fixpnt; nbits = N1; small = (N1 <= 12); ops1 = {OP_conv};
		cfg = std::to_string(N1) + "," + std::to_string(R1) + "," + (AR == Saturate ? "1" : "0") + ",8," + std::to_string(N2) + "," + std::to_string(R2) + "," + (AR == Saturate ? "1" : "0") + ",8"; }
	std::string run(int op, const std::vector<std::string>& a) override {
		return guarded([&]() -> std::string {
			using A = fixpnt<N1, R1, AR, uint8_t>; using B = fixpnt<N2, R2, AR, uint8_t>;
			A x = mk_bits<A>(a[0], N1);
			B y(x);
			return out_bits(y, N2); });
	}
};
template <unsigned N1, typename B1, unsigned N2>
struct II : Runner {
	II() { fam = FAM_integer; nbits = N1; small = (N1 <= 12); ops1 = {OP_conv};
		cfg = std::to_string(N1) + "," + std::to_string(N2) + (sizeof(B1) == 1 ? std::string() : "," + std::to_string(8 * sizeof(B1))); }
	std::string run(int op, const std::vector<std::string>& a) override {
		return guarded([&]() -> std::string {
			using A = integer<N1, B1>; using B = integer<N2, B1>;
			A x = mk_bits<A>(a[0], N1);
			B y(x);
			return out_bits(y, N2); });
	}
};
// posit -> integer and integer -> posit adapters (cfg: posit n, es, integer n; op conv = p->i, conv_via_f64 = i->p)
template <unsigned N, unsigned ES, unsigned NI>
struct PI : Runner {
	PI() { fam = FAM_posit; nbits = N; small = (N <= 12); ops1 = {OP_conv};
		cfg = std::to_string(N) + "," + std::to_string(ES) + "," + std::to_string(NI); }
	std::string run(int op, const std::vector<std::string>& a) override {
		return guarded([&]() -> std::string {
			posit<N, ES> p; p.setbits(hexu64(a[0]));
			integer<NI, uint8_t> i;
			convert_p2i(p, i);
			return out_bits(i, NI); });
	}
	std::vector<bool> gen(Rng& g) override { return gen_operand(g, N); }
};
template <unsigned NI, unsigned N, unsigned ES>
struct IP : Runner {
	IP() { fam = FAM_integer; nbits = NI; small = (NI <= 12); ops1 = {OP_conv_via_f64};
		cfg = std::to_string(NI) + "," + std::to_string(N) + "," + std::to_string(ES); }
	std::string run(int op, const std::vector<std::string>& a) override {
		return guarded([&]() -> std::string {
			integer<NI, uint8_t> i = mk_bits<integer<NI, uint8_t>>(a[0], NI);
			posit<N, ES> p;
			convert_i2p(i, p);
			auto bb = p.get(); return hex_from_bits(N, [&](unsigned k) { return bb.test(k); }); });
	}
};

template <unsigned N1, unsigned R1, unsigned N2, unsigned R2, Behavior B>
struct LL : Runner {
	LL() { fam = FAM_lns; nbits = N1; small = (N1 <= 12); ops1 = {OP_conv};
		auto c = [](unsigned n, unsigned r) { return std::to_string(n) + "," + std::to_string(r) + "," + (B == Behavior::Saturating ? "1" : "0") + ",8"; };
		cfg = c(N1, R1) + "," + c(N2, R2); }
	std::string run(int op, const std::vector<std::string>& a) override {
		return guarded([&]() -> std::string {
			using A = lns<N1, R1, uint8_t, B>; using T = lns<N2, R2, uint8_t, B>;
			A x = mk_bits<A>(a[0], N1);
			T y(x);
			return out_bits(y, N2); });
	}
};
template <class R> static void reg() { g_runners.emplace_back(new R()); }
#define PPAIR(a, b, c, d) reg<PP<a, b, c, d>>(); reg<PP<c, d, a, b>>();
#define FPAIR(a, b, c, d) reg<FF<a, b, c, d, Modulo>>(); reg<FF<c, d, a, b, Modulo>>(); reg<FF<a, b, c, d, Saturate>>(); reg<FF<c, d, a, b, Saturate>>();
#define LPAIR(a, b, c, d) reg<LL<a, b, c, d, Behavior::Saturating>>(); reg<LL<c, d, a, b, Behavior::Saturating>>(); reg<LL<a, b, c, d, Behavior::Wrapping>>(); reg<LL<c, d, a, b, Behavior::Wrapping>>();
#define IPAIR(a, b) reg<II<a, uint8_t, b>>(); reg<II<b, uint8_t, a>>();
#define IPAIRB(a, b, BT) reg<II<a, BT, b>>(); reg<II<b, BT, a>>();

int main(int argc, char** argv) {
#if PART == 0
	PPAIR(8, 0, 8, 2) PPAIR(8, 1, 16, 1) PPAIR(8, 2, 12, 1) PPAIR(10, 1, 16, 2) PPAIR(12, 2, 8, 0) PPAIR(16, 1, 32, 2) PPAIR(16, 2, 24, 1) PPAIR(32, 2, 64, 3) PPAIR(6, 3, 20, 1) PPAIR(9, 0, 11, 3)
	reg<PP<8,1,8,1>>(); reg<PP<16,1,16,1>>();
	reg<PI<8,0,8>>(); reg<PI<8,2,16>>(); reg<PI<12,1,8>>(); reg<PI<16,1,32>>(); reg<PI<16,2,12>>(); reg<PI<32,2,64>>();
	reg<IP<8,8,0>>(); reg<IP<8,16,1>>(); reg<IP<12,8,2>>(); reg<IP<12,16,2>>(); reg<IP<16,32,2>>(); reg<IP<32,16,1>>();
#elif PART == 1
	reg<CC<8,2,true,false,false, 8,4,true,false,false>>(); reg<CC<8,4,true,false,false, 8,2,true,false,false>>();
	reg<CC<8,3,true,false,false, 16,5,true,false,false>>(); reg<CC<16,5,true,false,false, 8,3,true,false,false>>();
	reg<CC<8,4,false,false,false, 12,5,true,true,false>>(); reg<CC<12,5,true,true,false, 8,4,false,false,false>>();
	reg<CC<10,3,true,false,true, 10,5,true,false,false>>(); reg<CC<10,5,true,false,false, 10,3,true,false,true>>();
	reg<CC<16,5,true,false,false, 32,8,true,false,false>>(); reg<CC<32,8,true,false,false, 16,5,true,false,false>>();
	reg<CC<16,8,true,false,false, 16,5,true,false,false>>(); reg<CC<16,5,true,false,false, 16,8,true,false,false>>();
	reg<CC<12,4,true,false,false, 12,4,true,false,false>>();
	// sources that do not fit a float (more than 8 exponent bits or more than 23 fraction bits) and wide targets
	reg<CC<20,11,true,false,false, 32,11,true,false,false>>(); reg<CC<32,11,true,false,false, 20,11,true,false,false>>();
	reg<CC<24,11,true,false,false, 16,11,true,false,false>>(); reg<CC<32,5,true,false,false, 40,5,true,false,false>>();
	reg<CC<32,5,true,false,false, 30,5,true,false,false>>(); reg<CC<40,8,true,false,false, 32,8,true,false,false>>();
	reg<CC<48,11,true,false,false, 24,8,true,false,false>>(); reg<CC<64,11,true,false,false, 32,8,true,false,false>>();
	reg<CC<32,8,true,false,false, 64,11,true,false,false>>(); reg<CC<28,9,true,false,false, 28,6,true,true,false>>();
#else
	FPAIR(8, 4, 8, 2) FPAIR(8, 4, 12, 8) FPAIR(8, 0, 16, 8) FPAIR(10, 5, 6, 2) FPAIR(12, 6, 8, 6) FPAIR(16, 8, 32, 16) FPAIR(16, 12, 16, 4) FPAIR(24, 12, 12, 4)
	LPAIR(8, 2, 8, 4) LPAIR(8, 3, 12, 5) LPAIR(10, 4, 8, 2) LPAIR(12, 6, 16, 8) LPAIR(16, 5, 9, 5) reg<LL<8, 3, 8, 3, Behavior::Saturating>>();
	IPAIR(8, 12) IPAIR(8, 16) IPAIR(9, 7) IPAIR(12, 33) IPAIR(16, 32) IPAIR(24, 17) IPAIR(32, 64) IPAIR(65, 31) IPAIR(12, 4)
	// other block types, sizes that do not fill their top block
	IPAIRB(8, 16, uint16_t) IPAIRB(12, 40, uint16_t) IPAIRB(16, 32, uint32_t) IPAIRB(33, 64, uint32_t) IPAIRB(20, 72, uint32_t) IPAIRB(24, 64, uint64_t) IPAIRB(40, 128, uint64_t) IPAIRB(5, 8, uint8_t) IPAIRB(7, 9, uint16_t)
#endif
	return drv_main(argc, argv);
}
