// C13: error-free transformations on doubles (error_free_ops.hpp) and the generic twoSum on cfloat types.
#include <universal/number/cfloat/cfloat.hpp>
#include <universal/numerics/error_free_ops.hpp>
#include <universal/numerics/twosum.hpp>
#include <cmath>
#include "drvkit.hpp"
using namespace sw::universal;

// doubles with aimed structure: exponent gaps 0..110 relative to a partner, sparse / all-ones / random significands,
// subnormals, values at the split threshold
static double gen_double(Rng& g, int ebase) {
	uint64_t frac;
	switch (g.below(7)) {
	case 0: frac = 0; break;
	case 1: frac = (1ull << 52) - 1; break;
	case 2: frac = 1; break;
	case 3: frac = 1ull << 51; break;
	case 4: frac = (g.next() & ((1ull << 52) - 1)) & ~((1ull << g.below(52)) - 1); break;      // trailing zeros
	case 5: frac = ((1ull << 26) | 1) << g.below(26); break;
	default: frac = g.next() & ((1ull << 52) - 1); break;
	}
	int e = ebase;
	if (e < -1022) { // subnormal
		uint64_t bits = frac >> (uint64_t)std::min<int64_t>(52, -1022 - e);
		double d = f64from(bits);
		return g.below(2) ? -d : d;
	}
	if (e > 1022) e = 1022;
	uint64_t bits = ((uint64_t)(e + 1023) << 52) | frac;
	double d = f64from(bits);
	return g.below(2) ? -d : d;
}
static std::string hd(double d) { return hex64(f64bits(d)); }
static void line(int op, const std::string& args, const std::string& res) { printf("%d 64 %d %s %s\n", FAM_eft, op, args.c_str(), res.c_str()); }

template <unsigned N, unsigned ES, typename BT>
static void gen_cfloat(uint64_t seed, uint64_t count, bool exhaustive) {
	using T = cfloat<N, ES, BT, true, false, false>;
	std::string cfg = std::to_string(N) + "," + std::to_string(ES) + ",1,0,0," + std::to_string(8 * sizeof(BT));
	auto one = [&](uint64_t ab, uint64_t bb) {
		T a, b, s, r; a.setbits(ab); b.setbits(bb);
		std::string res = guarded([&]() -> std::string { twoSum(a, b, s, r); return out_bits(s, N) + "," + out_bits(r, N); });
		printf("%d %s %d %llx,%llx %s\n", FAM_cfloat, cfg.c_str(), OP_gen_two_sum, (unsigned long long)ab, (unsigned long long)bb, res.c_str());
	};
	if (exhaustive) { for (uint64_t a = 0; a < (1ull << N); ++a) for (uint64_t b = 0; b < (1ull << N); ++b) one(a, b); }
	else { Rng g(seed * 131 + N); for (uint64_t i = 0; i < count; ++i) one(g.next() & ((1ull << N) - 1), g.next() & ((1ull << N) - 1)); }
}

int main(int argc, char** argv) {
	Args A = parse_args(argc, argv);
	install_signal_guards(); std::cerr.tie(nullptr);
	if (A.mode == "cfloat") {
		if (A.shard == 0) gen_cfloat<8, 2, uint8_t>(A.seed, 0, true);
		if (A.shard == 1 % A.nshards) gen_cfloat<8, 4, uint8_t>(A.seed, 0, true);
		if (A.shard == 2 % A.nshards) gen_cfloat<16, 5, uint16_t>(A.seed, A.count, false);
		if (A.shard == 3 % A.nshards) gen_cfloat<16, 8, uint16_t>(A.seed, A.count, false);
		return 0;
	}
	Rng g(A.seed * 7 + A.shard * 1000003);
	for (uint64_t i = 0; i < A.count; ++i) {
		// mostly moderate exponents (the exact-rational judge is quadratic in the exponent magnitude), 6% extremes
		int e1 = (int)g.below(120) - 60;
		if (g.below(16) == 0) e1 = (int)g.below(2100) - 1075;
		int gap = (int)g.below(112);
		if (g.below(2)) gap = -gap;
		double a = gen_double(g, e1), b = gen_double(g, e1 + gap), c = gen_double(g, e1 + (int)g.below(120) - 60);
		if (g.below(12) == 0) b = -a;
		if (g.below(12) == 0) b = a;
		if (g.below(20) == 0) a = 6.6969287949141700e+299 * (g.below(2) ? 1.0000000000000002 : 0.9999999999999999);
		volatile double r, s;
		s = two_sum(a, b, r); line(OP_two_sum, hd(a) + "," + hd(b), hd(s) + "," + hd(r));
		s = two_diff(a, b, r); line(OP_two_diff, hd(a) + "," + hd(b), hd(s) + "," + hd(r));
		{ double x = a, y = b; if (std::fabs(x) < std::fabs(y)) std::swap(x, y); s = quick_two_sum(x, y, r); line(OP_quick_two_sum, hd(x) + "," + hd(y), hd(s) + "," + hd(r)); }
		s = two_prod(a, b, r); line(OP_two_prod, hd(a) + "," + hd(b), hd(s) + "," + hd(r));
		s = two_sqr(a, r); line(OP_two_sqr, hd(a) + "," + hd(a), hd(s) + "," + hd(r));
		{ volatile double hi, lo; split(a, hi, lo); line(OP_split, hd(a) + "," + hd(a), hd(hi) + "," + hd(lo)); }
		{ volatile double x = a, y = b, z = c; three_sum(x, y, z); line(OP_three_sum, hd(a) + "," + hd(b) + "," + hd(c), hd(x) + "," + hd(y) + "," + hd(z)); }
	}
	return 0;
}
