// Correspondence driver for fixpnt<nbits,rbits,Modulo|Saturate,bt>.
// group "arith": + - * / neg ++ --   "cmp": six comparisons   "conv": native conversions
#ifdef THROWING
#define FIXPNT_THROW_ARITHMETIC_EXCEPTION 1
#endif
#include <universal/number/fixpnt/fixpnt.hpp>
#include <cmath>
#include "drvkit.hpp"
using namespace sw::universal;

static std::string g_group = "arith";

template <unsigned N, unsigned RB, bool SAT, typename BT>
struct R : Runner {
	using T = fixpnt<N, RB, SAT, BT>;
	struct Tr {
		static T mk(const std::string& h) { return mk_bits<T>(h, N); }
		static std::string out(const T& v) { return out_bits(v, N); }
	};
	R(bool sm) {
		fam = FAM_fixpnt; nbits = N; small = sm;
		cfg = std::to_string(N) + "," + std::to_string(RB) + "," + (SAT == Saturate ? "1" : "0") + "," + std::to_string(8 * sizeof(BT));
		if (g_group == "arith") { ops1 = {OP_neg, OP_inc, OP_dec}; ops2 = {OP_add, OP_sub, OP_mul, OP_div}; }
		if (g_group == "cmp") { ops1 = {OP_inc, OP_dec}; ops2 = {OP_eq, OP_ne, OP_lt, OP_le, OP_gt, OP_ge}; }
		if (g_group == "conv") { ops1 = {OP_to_f64, OP_to_f32, OP_to_f64_rt}; }
		if (g_group == "sqrt") { ops1 = {OP_sqrt}; }
	}
	std::string run(int op, const std::vector<std::string>& a) override {
		return guarded([&]() -> std::string {
			if (op == OP_limits) return limits_of<T, Tr>(false);
			if (op >= OP_from_f32 && op <= OP_to_f80) return native_conv<T, Tr, false>(op, a);
			T x = Tr::mk(a[0]);
			switch (op) {
			case OP_add: return Tr::out(x + Tr::mk(a[1]));
			case OP_sub: return Tr::out(x - Tr::mk(a[1]));
			case OP_mul: return Tr::out(x * Tr::mk(a[1]));
			case OP_div: return Tr::out(x / Tr::mk(a[1]));
			case OP_neg: return Tr::out(-x);
			case OP_sqrt: return Tr::out(sqrt(x));
			case OP_inc: { ++x; return Tr::out(x); }
			case OP_dec: { --x; return Tr::out(x); }
			case OP_eq: return b01(x == Tr::mk(a[1]));
			case OP_ne: return b01(x != Tr::mk(a[1]));
			case OP_lt: return b01(x < Tr::mk(a[1]));
			case OP_le: return b01(x <= Tr::mk(a[1]));
			case OP_gt: return b01(x > Tr::mk(a[1]));
			case OP_ge: return b01(x >= Tr::mk(a[1]));
			default: return "?";
			}
		});
	}
	void extra(const std::string& ha, Rng& g, const std::function<void(int, std::vector<std::string>)>& emit) override {
		if (g_group == "cmp" && ha.find_first_not_of('0') == std::string::npos) emit(OP_limits, {});
		if (g_group != "conv") return;
		T x = Tr::mk(ha); T y = x; ++y;
		double v = double(x), v2 = double(y);
		native_sources(v, v2, ha.find_first_not_of('0') == std::string::npos, g, emit, false);
		// out-of-range sources: beyond maxpos / maxneg by up to 2x
		if (g.below(8) == 0) {
			double big = std::ldexp(1.0, (int)N - 1 - (int)RB);
			for (double d : {big, -big, big + v, -big + v, 2 * big + v, big - std::ldexp(1.0, -(int)RB) * 0.5, -big - std::ldexp(1.0, -(int)RB) * 0.5})
				emit(OP_from_f64, {hex64(f64bits(d))});
		}
	}
};

template <unsigned N, unsigned RB, typename BT> static void reg(bool sm) {
	g_runners.emplace_back(new R<N, RB, Modulo, BT>(sm));
	g_runners.emplace_back(new R<N, RB, Saturate, BT>(sm));
}
template <unsigned N, typename BT, unsigned... RBs> static void regN(bool sm, std::integer_sequence<unsigned, RBs...>) { (reg<N, RBs, BT>(sm), ...); }
template <unsigned N, typename BT> static void regAll(bool sm) { regN<N, BT>(sm, std::make_integer_sequence<unsigned, N + 1>{}); }

int main(int argc, char** argv) {
	g_group = parse_group(argc, argv, g_group);
#ifndef NO_SMALL
	regAll<4, uint8_t>(true); regAll<5, uint8_t>(true); regAll<6, uint8_t>(true); regAll<7, uint8_t>(true); regAll<8, uint8_t>(true);
#endif
#ifdef WITH_MID
	reg<9, 4, uint8_t>(true); reg<9, 0, uint16_t>(true); reg<9, 9, uint8_t>(true); reg<10, 5, uint16_t>(true);
#endif
#ifndef NO_LARGE
	reg<12, 4, uint8_t>(false); reg<16, 8, uint8_t>(false); reg<16, 8, uint16_t>(false); reg<16, 0, uint8_t>(false); reg<16, 16, uint16_t>(false);
	reg<24, 12, uint8_t>(false); reg<24, 12, uint32_t>(false); reg<32, 16, uint8_t>(false); reg<32, 16, uint16_t>(false); reg<32, 16, uint32_t>(false);
	reg<33, 16, uint32_t>(false); reg<40, 20, uint8_t>(false); reg<48, 24, uint16_t>(false); reg<64, 32, uint32_t>(false); reg<64, 32, uint8_t>(false);
	reg<17, 9, uint16_t>(false); reg<31, 15, uint32_t>(false); reg<64, 63, uint16_t>(false); reg<64, 1, uint32_t>(false);
#endif
	return drv_main(argc, argv);
}
