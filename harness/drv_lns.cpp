// Correspondence driver for lns<nbits, rbits, bt, Behavior>.
#ifdef THROWING
#define LNS_THROW_ARITHMETIC_EXCEPTION 1
#endif
#include <universal/number/lns/lns.hpp>
#include <cmath>
#include "drvkit.hpp"
using namespace sw::universal;

static std::string g_group = "arith";

template <unsigned N, unsigned RB, typename BT, Behavior B>
struct R : Runner {
	using T = lns<N, RB, BT, B>;
	struct Tr {
		static T mk(const std::string& h) { return mk_bits<T>(h, N); }
		static std::string out(const T& v) { return out_bits(v, N); }
	};
	R(bool sm) {
		fam = FAM_lns; nbits = N; small = sm;
		cfg = std::to_string(N) + "," + std::to_string(RB) + "," + (B == Behavior::Saturating ? "1" : "0") + "," + std::to_string(8 * sizeof(BT));
		if (g_group == "arith") { ops1 = {OP_neg}; ops2 = {OP_mul, OP_div, OP_add, OP_sub}; }
		if (g_group == "muldiv") { ops1 = {OP_neg}; ops2 = {OP_mul, OP_div}; }
		if (g_group == "addsub") { ops2 = {OP_add, OP_sub}; }
		if (g_group == "cmp") { ops1 = {}; ops2 = {OP_eq, OP_ne, OP_lt, OP_le, OP_gt, OP_ge}; }
		if (g_group == "conv") { ops1 = {OP_to_f64, OP_to_f64_rt}; }
	}
	std::string run(int op, const std::vector<std::string>& a) override {
		return guarded([&]() -> std::string {
			if (op >= OP_from_f32 && op <= OP_to_f80) return native_conv<T, Tr>(op, a);
			T x = Tr::mk(a[0]);
			switch (op) {
			case OP_add: return Tr::out(x + Tr::mk(a[1]));
			case OP_sub: return Tr::out(x - Tr::mk(a[1]));
			case OP_mul: return Tr::out(x * Tr::mk(a[1]));
			case OP_div: return Tr::out(x / Tr::mk(a[1]));
			case OP_neg: return Tr::out(-x);
			case OP_eq: return b01(x == Tr::mk(a[1]));
			case OP_ne: return b01(x != Tr::mk(a[1]));
			case OP_lt: return b01(x < Tr::mk(a[1]));
			case OP_le: return b01(x <= Tr::mk(a[1]));
			case OP_gt: return b01(x > Tr::mk(a[1]));
			case OP_ge: return b01(x >= Tr::mk(a[1]));
			default: return "?";
			}
		});
	}
	void extra(const std::string& ha, Rng& g, const std::function<void(int, std::vector<std::string>)>& emit) override {
		if (g_group != "conv") return;
		bool first = ha.find_first_not_of('0') == std::string::npos;
		T x = Tr::mk(ha); T y = x; ++y;
		native_sources(double(x), double(y), first, g, emit);
	}
};

template <unsigned N, unsigned RB, typename BT> static void reg(bool sm) {
	// add/sub acceptance is expensive (certified enclosures): enumerate only the cheaper small configurations
	if (g_group == "addsub" && sm && N >= 8 && RB > 2) return;
	g_runners.emplace_back(new R<N, RB, BT, Behavior::Saturating>(sm));
	g_runners.emplace_back(new R<N, RB, BT, Behavior::Wrapping>(sm));
}

int main(int argc, char** argv) {
	g_group = parse_group(argc, argv, g_group);
#ifndef NO_SMALL
	reg<4, 1, uint8_t>(true); reg<4, 2, uint8_t>(true); reg<5, 2, uint8_t>(true); reg<6, 0, uint8_t>(true); reg<6, 2, uint8_t>(true); reg<6, 4, uint8_t>(true);
	reg<7, 3, uint8_t>(true); reg<8, 0, uint8_t>(true); reg<8, 2, uint8_t>(true); reg<8, 3, uint8_t>(true); reg<8, 4, uint8_t>(true); reg<8, 6, uint8_t>(true);
	reg<8, 3, uint16_t>(true);
#endif
#ifdef WITH_MID
	reg<9, 4, uint8_t>(true); reg<9, 4, uint16_t>(true); reg<10, 5, uint8_t>(true);
#endif
#ifndef NO_LARGE
	reg<12, 6, uint8_t>(false); reg<16, 8, uint8_t>(false); reg<16, 8, uint16_t>(false); reg<16, 5, uint16_t>(false); reg<17, 8, uint16_t>(false);
	reg<24, 12, uint8_t>(false); reg<24, 12, uint32_t>(false); reg<32, 16, uint16_t>(false); reg<32, 16, uint32_t>(false); reg<33, 16, uint32_t>(false);
	reg<64, 32, uint32_t>(false); reg<64, 32, uint8_t>(false);
#endif
	return drv_main(argc, argv);
}
