// C10: dd and qd arithmetic.  Operands are normalised multi-component values built by the driver with exact
// two_sum steps in plain double arithmetic; results are printed component by component.
#include <universal/number/dd/dd.hpp>
#include <universal/number/qd/qd.hpp>
#include <cmath>
#include "drvkit.hpp"
using namespace sw::universal;

static std::string hd(double d) { return hex64(f64bits(d)); }
static bool g_readback = false;   // --mode readback: only double(x) (C04); otherwise everything but double(x) (C10)
static inline void ts(double a, double b, double& s, double& e) { s = a + b; double bb = s - a; e = (a - (s - bb)) + (b - bb); }

static double gen_sig(Rng& g) {
	uint64_t frac;
	switch (g.below(6)) {
	case 0: frac = 0; break;
	case 1: frac = (1ull << 52) - 1; break;
	case 2: frac = 1ull << g.below(52); break;
	case 3: frac = (g.next() & ((1ull << 52) - 1)) & ~((1ull << g.below(52)) - 1); break;
	default: frac = g.next() & ((1ull << 52) - 1); break;
	}
	return f64from((1023ull << 52) | frac) * (g.below(2) ? -1.0 : 1.0);
}
// a normalised k-component value with leading exponent e
static void gen_multi(Rng& g, int e, unsigned k, double* out) {
	double c[4] = {0, 0, 0, 0};
	int ee = e;
	for (unsigned i = 0; i < k; ++i) {
		c[i] = std::ldexp(gen_sig(g), ee);
		if (i > 0 && g.below(5) == 0) c[i] = 0;
		if (i > 0 && g.below(6) == 0) c[i] = std::ldexp(g.below(2) ? 1.0 : -1.0, ee + 1);   // tail exactly at +- half ulp: a tie
		ee -= 53 + (int)g.below(g.below(3) ? 3 : 40);
	}
	// renormalise exactly (sum preserved): a few passes of two_sum from the bottom up
	for (int pass = 0; pass < 4; ++pass)
		for (int i = (int)k - 2; i >= 0; --i) { double s, er; ts(c[i], c[i + 1], s, er); c[i] = s; c[i + 1] = er; }
	for (unsigned i = 0; i < k; ++i) out[i] = c[i];
}

static void run_dd(uint64_t seed, uint64_t count) {
	Rng g(seed * 11 + 3);
	for (uint64_t i = 0; i < count; ++i) {
		int e1 = (int)g.below(80) - 40;
		if (g.below(20) == 0) e1 = (int)g.below(1600) - 800;
		int gap = (int)g.below(112); if (g.below(2)) gap = -gap;
		double a[2], b[2];
		gen_multi(g, e1, 2, a); gen_multi(g, e1 + gap, 2, b);
		switch (g.below(10)) {
		case 0: b[0] = -a[0]; b[1] = std::ldexp(gen_sig(g), std::ilogb(a[0] == 0 ? 1.0 : a[0]) - 54 - (int)g.below(30)); break;   // cancelling heads, independent tails
		case 1: b[0] = a[0]; b[1] = a[1]; break;
		case 2: b[0] = -a[0]; b[1] = -a[1]; break;
		case 3: b[0] = std::ldexp(1.0, (int)g.below(40) - 20); b[1] = 0; break;     // power of two
		case 4: {   // heads a few ulps apart with opposite signs (near cancellation), independent full-size tails
			int k = (int)g.below(7) - 3; double h = -a[0];
			for (int j = 0; j < (k < 0 ? -k : k); ++j) h = std::nextafter(h, k < 0 ? -INFINITY : INFINITY);
			b[0] = h; b[1] = std::ldexp(gen_sig(g), std::ilogb(a[0] == 0 ? 1.0 : a[0]) - 54 - (int)g.below(3)); break; }
		default: break;
		}
		{ double s, e; ts(b[0], b[1], s, e); b[0] = s; b[1] = e; }
		dd x(a[0], a[1]), y(b[0], b[1]);
		std::string args = hd(a[0]) + "," + hd(a[1]) + "," + hd(b[0]) + "," + hd(b[1]);
		auto pr = [&](int op, const std::string& r) { if ((op == OP_to_f64) == g_readback) printf("%d 0 %d %s %s\n", FAM_dd, op, args.c_str(), r.c_str()); };
		auto st = [&](const dd& z) { return hd(z.high()) + "," + hd(z.low()); };
		pr(OP_add, guarded([&] { return st(x + y); }));
		pr(OP_sub, guarded([&] { return st(x - y); }));
		pr(OP_mul, guarded([&] { return st(x * y); }));
		pr(OP_div, guarded([&] { return st(x / y); }));
		pr(OP_sqrt, guarded([&] { return st(sqrt(x)); }));
		pr(OP_to_f64, guarded([&] { return hd(double(x)); }));
		pr(OP_lt, guarded([&] { return std::string(b01(x < y)); }));
		pr(OP_eq, guarded([&] { return std::string(b01(x == y)); }));
		pr(OP_le, guarded([&] { return std::string(b01(x <= y)); }));
	}
}
static void run_qd(uint64_t seed, uint64_t count) {
	Rng g(seed * 13 + 5);
	for (uint64_t i = 0; i < count; ++i) {
		int e1 = (int)g.below(60) - 30;
		int gap = (int)g.below(220); if (g.below(2)) gap = -gap;
		double a[4], b[4];
		gen_multi(g, e1, 4, a); gen_multi(g, e1 + gap, 4, b);
		switch (g.below(10)) {
		case 0: b[0] = -a[0]; break;
		case 1: for (int k = 0; k < 4; ++k) b[k] = a[k]; break;
		case 2: for (int k = 0; k < 4; ++k) b[k] = -a[k]; break;
		case 3: b[0] = std::ldexp(1.0, (int)g.below(40) - 20); b[1] = b[2] = b[3] = 0; break;
		default: break;
		}
		for (int pass = 0; pass < 4; ++pass) for (int k = 2; k >= 0; --k) { double s, er; ts(b[k], b[k + 1], s, er); b[k] = s; b[k + 1] = er; }
		qd x(a[0], a[1], a[2], a[3]), y(b[0], b[1], b[2], b[3]);
		std::string args;
		for (int k = 0; k < 4; ++k) args += (k ? "," : "") + hd(a[k]);
		for (int k = 0; k < 4; ++k) args += "," + hd(b[k]);
		auto pr = [&](int op, const std::string& r) { if ((op == OP_to_f64) == g_readback) printf("%d 0 %d %s %s\n", FAM_qd, op, args.c_str(), r.c_str()); };
		auto st = [&](const qd& z) { return hd(z[0]) + "," + hd(z[1]) + "," + hd(z[2]) + "," + hd(z[3]); };
		pr(OP_add, guarded([&] { return st(x + y); }));
		pr(OP_sub, guarded([&] { return st(x - y); }));
		pr(OP_mul, guarded([&] { return st(x * y); }));
		pr(OP_div, guarded([&] { return st(x / y); }));
		pr(OP_sqrt, guarded([&] { return st(sqrt(x)); }));
		pr(OP_to_f64, guarded([&] { return hd(double(x)); }));
		pr(OP_lt, guarded([&] { return std::string(b01(x < y)); }));
		pr(OP_eq, guarded([&] { return std::string(b01(x == y)); }));
	}
}
// C03: construction and assignment from native values.  The target object first holds junk in every component, so that an
// assignment which forgets to clear a component is visible.
template <class T, unsigned K>
static void run_from(uint64_t seed, uint64_t count, int fam) {
	Rng g(seed * 13 + 5);
	auto comps = [&](const T& z) { std::string s; for (unsigned i = 0; i < K; ++i) { s += (i ? "," : ""); if constexpr (K == 2) s += hd(i == 0 ? z.high() : z.low()); else s += hd(z[i]); } return s; };
	auto junk = [&]() { if constexpr (K == 2) return T(1.0, 1e-20); else return T(1.0, 1e-20, 1e-40, 1e-60); };
	auto emit = [&](int op, const std::string& args, const std::string& r) { printf("%d 0 %d %s %s\n", fam, op, args.c_str(), r.c_str()); };
	for (uint64_t i = 0; i < count; ++i) {
		// 64-bit integers: around 2^53, 2^63, all ones, sparse, random
		uint64_t u;
		switch (g.below(8)) {
		case 0: u = (1ull << (52 + g.below(12))) + g.below(5) - 2; break;
		case 1: u = ~0ull - g.below(4); break;
		case 2: u = (1ull << 63) + g.below(5) - 2; break;
		case 3: u = g.next() >> g.below(64); break;
		case 4: u = (g.next() | 1ull) | (1ull << 63); break;
		case 5: u = (1ull << g.below(64)) | (1ull << g.below(64)) | 1ull; break;
		default: u = g.next(); break;
		}
		{ T z = junk(); z = (long long)u; emit(OP_from_int, "40," + hex64(u), guarded([&] { return comps(z); })); }
		{ T z = junk(); z = (unsigned long long)u; emit(OP_from_uint, "40," + hex64(u), guarded([&] { return comps(z); })); }
		{ T z((long long)u); emit(OP_from_int, "40," + hex64(u), guarded([&] { return comps(z); })); }
		{ T z((unsigned long long)u); emit(OP_from_uint, "40," + hex64(u), guarded([&] { return comps(z); })); }
		{ int v = (int)(uint32_t)u; T z = junk(); z = v; emit(OP_from_int, "20," + hex64((uint32_t)v), guarded([&] { return comps(z); })); }
		double d = std::ldexp(gen_sig(g), (int)g.below(600) - 300); float f = (float)std::ldexp(gen_sig(g), (int)g.below(200) - 100);
		{ T z = junk(); z = d; emit(OP_from_f64, hex64(f64bits(d)), guarded([&] { return comps(z); })); }
		{ T z = junk(); z = f; emit(OP_from_f32, hex64(f32bits(f)), guarded([&] { return comps(z); })); }
		{ T z(d); emit(OP_from_f64, hex64(f64bits(d)), guarded([&] { return comps(z); })); }
	}
}

int main(int argc, char** argv) {
	Args A = parse_args(argc, argv);
	install_signal_guards(); std::cerr.tie(nullptr);
	g_readback = (A.mode == "readback");
	if (A.mode == "from") { if (A.shard % 2 == 0) run_from<dd, 2>(A.seed + A.shard, A.count, FAM_dd); else run_from<qd, 4>(A.seed + A.shard, A.count, FAM_qd); return 0; }
	if (A.shard % 2 == 0) run_dd(A.seed + A.shard, A.count); else run_qd(A.seed + A.shard, A.count / 2 + 1);
	return 0;
}
