// Shared helpers for the correspondence drivers.  Drivers call only the public
// API of universal and print raw bits; they never interpret results.
#pragma once
#include <cstdint>
#include <cstdio>
#include <cstdlib>
#include <cstring>
#include <string>
#include <vector>

enum Op : int {
#define OP(n, c) OP_##n = c,
#include "ops.def"
#undef OP
};

enum Fam : int { FAM_posit = 1, FAM_cfloat = 2, FAM_fixpnt = 3, FAM_integer = 4, FAM_lns = 5, FAM_areal = 6,
                 FAM_quire = 7, FAM_dd = 8, FAM_qd = 9, FAM_eft = 10, FAM_einteger = 11, FAM_edecimal = 12,
                 FAM_erational = 13, FAM_text = 14 };

// SplitMix64: all random choices derive from one state seeded by VERIF_SEED
struct Rng {
	uint64_t s;
	explicit Rng(uint64_t seed) : s(seed) {}
	uint64_t next() {
		uint64_t z = (s += 0x9e3779b97f4a7c15ull);
		z = (z ^ (z >> 30)) * 0xbf58476d1ce4e5b9ull;
		z = (z ^ (z >> 27)) * 0x94d049bb133111ebull;
		return z ^ (z >> 31);
	}
	uint64_t below(uint64_t n) { return n ? next() % n : 0; }
};

// arbitrary-width bit strings as hex (most significant first), built from a bit accessor
template <typename F>
static std::string hex_from_bits(unsigned nbits, F bit) {
	unsigned nn = (nbits + 3) / 4;
	std::string s(nn, '0');
	for (unsigned d = 0; d < nn; ++d) {
		unsigned v = 0;
		for (unsigned k = 0; k < 4; ++k) {
			unsigned i = d * 4 + k;
			if (i < nbits && bit(i)) v |= 1u << k;
		}
		s[nn - 1 - d] = "0123456789abcdef"[v];
	}
	return s;
}
static inline std::string hex64(uint64_t v) {
	char b[32];
	snprintf(b, sizeof b, "%llx", (unsigned long long)v);
	return b;
}
static inline uint64_t f64bits(double d) { uint64_t u; memcpy(&u, &d, 8); return u; }
static inline uint32_t f32bits(float d) { uint32_t u; memcpy(&u, &d, 4); return u; }
static inline double f64from(uint64_t u) { double d; memcpy(&d, &u, 8); return d; }
static inline float f32from(uint32_t u) { float d; memcpy(&d, &u, 4); return d; }

struct Args {
	std::string mode = "exh";
	uint64_t seed = 1;
	uint64_t count = 1000;
	unsigned shard = 0, nshards = 1;
	std::string only;   // restrict to one configuration token (replay)
	std::vector<std::string> rest;
};
static inline Args parse_args(int argc, char** argv) {
	Args a;
	for (int i = 1; i < argc; ++i) {
		std::string s = argv[i];
		if (s == "--mode") a.mode = argv[++i];
		else if (s == "--seed") a.seed = strtoull(argv[++i], nullptr, 10);
		else if (s == "--count") a.count = strtoull(argv[++i], nullptr, 10);
		else if (s == "--shard") { a.shard = atoi(argv[++i]); a.nshards = atoi(argv[++i]); }
		else if (s == "--only") a.only = argv[++i];
		else a.rest.push_back(s);
	}
	return a;
}
