// C11 (C API part): the pure C posit8 / posit8_1 library (c_api/pure_c, -DCAPI_PURE) and the C shim over the generic
// posits (c_api/shim, -DCAPI_SHIM), called through their C entry points and printed in the same case format as the C++
// posit driver (fam posit, cfg "n,es"), so the extracted model judges them and a pair stream compares them with the
// generic posit<n,es> line by line.  A thin wrapper class gives the C functions the operator interface drvkit expects.
#include <cmath>
#include <cstdio>
#if defined(CAPI_PURE)
extern "C" {
#include <c_api/pure_c/posit/posit8.c>
#include <c_api/pure_c/posit/posit8_1.c>
}
#elif defined(CAPI_SHIM)
#include <c_api/shim/posit/posit_c_api.cpp>
#elif defined(CAPI_GENERIC)
// reference build: the same driver over the generic C++ posit<n,es> (CAPI_GENERIC = 1: the pure C set, 2: the shim set)
#include <universal/number/posit/posit.hpp>
#else
#error "define CAPI_PURE, CAPI_SHIM or CAPI_GENERIC"
#endif
#include "drvkit.hpp"
static std::string g_group = "arith";
#include "posit_gen.hpp"

// policy P: type PT (positN_t), functions
#define WRAP2(NAME, FN) static PT NAME(PT a, PT b) { return FN(a, b); }
#define WRAP1(NAME, FN) static PT NAME(PT a) { return FN(a); }
#if defined(CAPI_PURE)
struct P8 {
	using PT = posit8_t; static constexpr unsigned N = 8, ES = 0; static constexpr bool has_rel = true, has_neg = true, has_wide_int = false;
	WRAP2(add, posit8_addp8) WRAP2(sub, posit8_subp8) WRAP2(mul, posit8_mulp8) WRAP2(div, posit8_divp8) WRAP1(sqrt_, posit8_sqrt) WRAP1(neg, posit8_negate) WRAP1(rcp, posit8_reciprocal)
	static int cmp(PT a, PT b) { return posit8_cmpp8(a, b); }
	static bool eq(PT a, PT b) { return posit8_equal(a, b); } static bool ne(PT a, PT b) { return posit8_notEqual(a, b); }
	static bool lt(PT a, PT b) { return posit8_lessThan(a, b); } static bool le(PT a, PT b) { return posit8_lessOrEqual(a, b); }
	static bool gt(PT a, PT b) { return posit8_greaterThan(a, b); } static bool ge(PT a, PT b) { return posit8_greaterOrEqual(a, b); }
	static PT fromf(float f) { return posit8_fromf(f); } static PT fromd(double d) { return posit8_fromd(d); } static PT fromsi(int i) { return posit8_fromsi(i); }
	static float tof(PT p) { return posit8_tof(p); } static double tod(PT p) { return posit8_tod(p); } static int tosi(PT p) { return posit8_tosi(p); }
};
struct P81 {
	using PT = posit8_1_t; static constexpr unsigned N = 8, ES = 1; static constexpr bool has_rel = true, has_neg = true, has_wide_int = false;
	WRAP2(add, posit8_1_addp8) WRAP2(sub, posit8_1_subp8) WRAP2(mul, posit8_1_mulp8) WRAP2(div, posit8_1_divp8) WRAP1(sqrt_, posit8_1_sqrt) WRAP1(neg, posit8_1_negate) WRAP1(rcp, posit8_1_reciprocate)
	static int cmp(PT a, PT b) { return posit8_1_cmpp8(a, b); }
	static bool eq(PT a, PT b) { return posit8_1_equal(a, b); } static bool ne(PT a, PT b) { return posit8_1_notEqual(a, b); }
	static bool lt(PT a, PT b) { return posit8_1_lessThan(a, b); } static bool le(PT a, PT b) { return posit8_1_lessOrEqual(a, b); }
	static bool gt(PT a, PT b) { return posit8_1_greaterThan(a, b); } static bool ge(PT a, PT b) { return posit8_1_greaterOrEqual(a, b); }
	static PT fromf(float f) { return posit8_1_fromf(f); } static PT fromd(double d) { return posit8_1_fromd(d); } static PT fromsi(int i) { return posit8_1_fromsi(i); }
	static float tof(PT p) { return posit8_1_tof(p); } static double tod(PT p) { return posit8_1_tod(p); } static int tosi(PT p) { return posit8_1_tosi(p); }
};
#elif defined(CAPI_GENERIC)
template <unsigned NB, unsigned E> struct G {
	struct PT { uint64_t v; };
	using Pz = sw::universal::posit<NB, E>;
	static constexpr unsigned N = NB, ES = E; static constexpr bool has_rel = true, has_neg = true, has_wide_int = true;
	static Pz d(PT a) { Pz p; p.setbits(a.v); return p; }
	static PT e(const Pz& p) { PT r; r.v = p.get().to_ullong(); return r; }
	static PT add(PT a, PT b) { return e(d(a) + d(b)); } static PT sub(PT a, PT b) { return e(d(a) - d(b)); }
	static PT mul(PT a, PT b) { return e(d(a) * d(b)); } static PT div(PT a, PT b) { return e(d(a) / d(b)); }
	static PT sqrt_(PT a) { return e(sw::universal::sqrt(d(a))); } static PT neg(PT a) { return e(-d(a)); } static PT rcp(PT a) { return e(d(a).reciprocal()); }
	static bool eq(PT a, PT b) { return d(a) == d(b); } static bool ne(PT a, PT b) { return d(a) != d(b); }
	static bool lt(PT a, PT b) { return d(a) < d(b); } static bool le(PT a, PT b) { return d(a) <= d(b); }
	static bool gt(PT a, PT b) { return d(a) > d(b); } static bool ge(PT a, PT b) { return d(a) >= d(b); }
	static PT fromf(float f) { return e(Pz(f)); } static PT fromd(double x) { return e(Pz(x)); } static PT fromsi(int i) { return e(Pz(i)); }
	static PT fromsll(long long i) { return e(Pz(i)); } static PT fromull(unsigned long long i) { return e(Pz(i)); } static PT fromui(unsigned i) { return e(Pz(i)); }
	static float tof(PT p) { return float(d(p)); } static double tod(PT p) { return double(d(p)); } static int tosi(PT p) { return int(d(p)); }
	static long long tosll(PT p) { return (long long)(d(p)); }
};
#else
#define SHIM(NAME, BITS, ESV) struct NAME { \
	using PT = posit##BITS##_t; static constexpr unsigned N = BITS, ES = ESV; static constexpr bool has_rel = false, has_neg = false, has_wide_int = true; \
	WRAP2(add, posit##BITS##_addp##BITS) WRAP2(sub, posit##BITS##_subp##BITS) WRAP2(mul, posit##BITS##_mulp##BITS) WRAP2(div, posit##BITS##_divp##BITS) WRAP1(sqrt_, posit##BITS##_sqrt) \
	static PT neg(PT a) { return a; } static PT rcp(PT a) { return a; } \
	static int cmp(PT a, PT b) { return posit##BITS##_cmpp##BITS(a, b); } \
	static bool eq(PT a, PT b) { return cmp(a, b) == 0; } static bool ne(PT a, PT b) { return cmp(a, b) != 0; } \
	static bool lt(PT a, PT b) { return cmp(a, b) < 0; } static bool le(PT a, PT b) { return cmp(a, b) <= 0; } \
	static bool gt(PT a, PT b) { return cmp(a, b) > 0; } static bool ge(PT a, PT b) { return cmp(a, b) >= 0; } \
	static PT fromf(float f) { return posit##BITS##_fromf(f); } static PT fromd(double d) { return posit##BITS##_fromd(d); } static PT fromsi(int i) { return posit##BITS##_fromsi(i); } \
	static PT fromsll(long long i) { return posit##BITS##_fromsll(i); } static PT fromull(unsigned long long i) { return posit##BITS##_fromull(i); } static PT fromui(unsigned i) { return posit##BITS##_fromui(i); } \
	static float tof(PT p) { return posit##BITS##_tof(p); } static double tod(PT p) { return posit##BITS##_tod(p); } static int tosi(PT p) { return posit##BITS##_tosi(p); } \
	static long long tosll(PT p) { return posit##BITS##_tosll(p); } };
SHIM(S8, 8, 0) SHIM(S16, 16, 1) SHIM(S32, 32, 2) SHIM(S64, 64, 3)
#endif

template <class P>
struct W {   // value wrapper with the operator interface of a universal number
	typename P::PT p;
	W() { memset(&p, 0, sizeof p); }
	W& operator=(float f) { p = P::fromf(f); return *this; }
	W& operator=(double d) { p = P::fromd(d); return *this; }
	W& operator=(int i) { p = P::fromsi(i); return *this; }
	W& operator=(long long i) requires(P::has_wide_int) { p = P::fromsll(i); return *this; }
	W& operator=(unsigned long long i) requires(P::has_wide_int) { p = P::fromull(i); return *this; }
	W& operator=(unsigned i) requires(P::has_wide_int) { p = P::fromui(i); return *this; }
	explicit operator double() const { return P::tod(p); }
	explicit operator float() const { return P::tof(p); }
	explicit operator int() const { return P::tosi(p); }
	explicit operator long long() const { if constexpr (P::has_wide_int) return P::tosll(p); else return P::tosi(p); }
};

template <class P>
struct R : Runner {
	using T = W<P>;
	static constexpr unsigned N = P::N, ES = P::ES;
	struct Tr {
		static T mk(const std::string& h) { T t; uint64_t v = hexu64(h); memcpy(&t.p, &v, N / 8); return t; }
		static std::string out(const T& t) { uint64_t v = 0; memcpy(&v, &t.p, N / 8); return hex_from_bits(N, [&](unsigned i) { return (v >> i) & 1; }); }
	};
	R(bool sm) {
		fam = FAM_posit; nbits = N; small = sm;
		cfg = std::to_string(N) + "," + std::to_string(ES);
		if (g_group == "arith") { ops1 = {OP_rcp, OP_neg}; ops2 = {OP_add, OP_sub, OP_mul, OP_div}; }
		if (g_group == "cmp") { ops2 = {OP_eq, OP_ne, OP_lt, OP_le, OP_gt, OP_ge}; }
		if (g_group == "conv") { ops1 = {OP_to_f64, OP_to_f32, OP_to_f64_rt}; }
		if (g_group == "sqrt") { ops1 = {OP_sqrt}; }
	}
	std::string run(int op, const std::vector<std::string>& a) override {
		return guarded([&]() -> std::string {
			if (op >= OP_from_f32 && op <= OP_to_f80) return native_conv<T, Tr, false>(op, a);
			T x = Tr::mk(a[0]); T r;
			auto o = [&](typename P::PT v) { r.p = v; return Tr::out(r); };
			switch (op) {
			case OP_add: return o(P::add(x.p, Tr::mk(a[1]).p));
			case OP_sub: return o(P::sub(x.p, Tr::mk(a[1]).p));
			case OP_mul: return o(P::mul(x.p, Tr::mk(a[1]).p));
			case OP_div: return o(P::div(x.p, Tr::mk(a[1]).p));
			case OP_rcp: if constexpr (P::has_neg) return o(P::rcp(x.p)); else return "?unsupported";
			case OP_neg: if constexpr (P::has_neg) return o(P::neg(x.p)); else return "?unsupported";
			case OP_sqrt: return o(P::sqrt_(x.p));
			case OP_eq: return b01(P::eq(x.p, Tr::mk(a[1]).p));
			case OP_ne: return b01(P::ne(x.p, Tr::mk(a[1]).p));
			case OP_lt: return b01(P::lt(x.p, Tr::mk(a[1]).p));
			case OP_le: return b01(P::le(x.p, Tr::mk(a[1]).p));
			case OP_gt: return b01(P::gt(x.p, Tr::mk(a[1]).p));
			case OP_ge: return b01(P::ge(x.p, Tr::mk(a[1]).p));
			default: return "?";
			}
		});
	}
	void extra(const std::string& ha, Rng& g, const std::function<void(int, std::vector<std::string>)>& emit) override {
		if (g_group != "conv") return;
		bool first = ha.find_first_not_of('0') == std::string::npos;
		uint64_t ab = hexu64(ha);
		double v = posit_bits_to_double(N, ES, ab), v2 = posit_bits_to_double(N, ES, ab + 1);
		native_sources(v, v2, first, g, emit, false);
		emit(OP_to_int, {"20", ha}); emit(OP_to_int, {"40", ha});
	}
	std::vector<bool> gen(Rng& g) override { return gen_operand(g, N); }
};

int main(int argc, char** argv) {
	g_group = parse_group(argc, argv, g_group);
#if defined(CAPI_PURE)
	g_runners.emplace_back(new R<P8>(true)); g_runners.emplace_back(new R<P81>(true));
#elif defined(CAPI_GENERIC) && CAPI_GENERIC == 1
	g_runners.emplace_back(new R<G<8, 0>>(true)); g_runners.emplace_back(new R<G<8, 1>>(true));
#elif defined(CAPI_GENERIC)
	g_runners.emplace_back(new R<G<8, 0>>(true)); g_runners.emplace_back(new R<G<16, 1>>(false)); g_runners.emplace_back(new R<G<32, 2>>(false)); g_runners.emplace_back(new R<G<64, 3>>(false));
#else
	g_runners.emplace_back(new R<S8>(true)); g_runners.emplace_back(new R<S16>(false)); g_runners.emplace_back(new R<S32>(false)); g_runners.emplace_back(new R<S64>(false));
#endif
	return drv_main(argc, argv);
}
