// C14: elastic types.  einteger<bt>: operands are built limb by limb with setblock()/setsign() and read back with
// block()/limbs()/sign() (hex magnitudes, no arithmetic of the type is used to build or read them);
// edecimal: decimal strings in (parse) and out (operator<<); erational: numerator/denominator via
// setnumerator()/setdenominator(), read back via top()/bottom()/sign.
// Histories: chains of operations on an accumulator, each step printed with its operands and result.
// build variant: -DTHROWING=1 (C19: *_THROW_ARITHMETIC_EXCEPTION for the three elastic types); --zero makes a quarter of the divisors zero
#ifdef THROWING
#define EINTEGER_THROW_ARITHMETIC_EXCEPTION 1
#define EDECIMAL_THROW_ARITHMETIC_EXCEPTION 1
#define ERATIONAL_THROW_ARITHMETIC_EXCEPTION 1
#endif
#include <universal/number/einteger/einteger.hpp>
#include <universal/number/edecimal/edecimal.hpp>
#include <universal/number/erational/erational.hpp>
#include <sstream>
#include "drvkit.hpp"
using namespace sw::universal;

static bool g_zero = false;
static std::string bytes_of(const std::string& s) {
	std::string r;
	for (size_t i = 0; i < s.size(); ++i) { char b[8]; snprintf(b, sizeof b, "%s%x", i ? "," : "", (unsigned char)s[i]); r += b; }
	return r.empty() ? "-" : r;
}

// ---- einteger ---------------------------------------------------------------
template <typename BT> struct EI {
	using T = einteger<BT>;
	static constexpr unsigned W = 8 * sizeof(BT);
	static T mk(bool neg, const std::vector<uint64_t>& limbs) {
		T x; x.clear();
		for (size_t i = 0; i < limbs.size(); ++i) x.setblock((unsigned)i, (BT)limbs[i]);
		x.setsign(neg);
		return x;
	}
	static std::string mag(const T& x) {
		unsigned n = x.limbs();
		if (n == 0) return "0";
		return hex_from_bits(n * W, [&](unsigned i) { return (x.block(i / W) >> (i % W)) & 1; });
	}
	static std::string st(const T& x) { return std::string(x.sign() ? "1," : "0,") + mag(x); }
	static std::vector<uint64_t> gen_limbs(Rng& g, unsigned maxl) {
		unsigned n = 1 + (unsigned)g.below(maxl);
		std::vector<uint64_t> v(n);
		uint64_t mask = (W == 64) ? ~0ull : ((1ull << W) - 1);
		for (auto& l : v) {
			switch (g.below(6)) {
			case 0: l = 0; break;
			case 1: l = 1; break;
			case 2: l = mask; break;
			case 3: l = (mask >> 1) + 1; break;       // BASE/2
			default: l = g.next() & mask; break;
			}
		}
		if (v.back() == 0) v.back() = 1 + (g.next() & (mask >> 1));   // no leading zero limb
		return v;
	}
	static void line(int op, const std::string& args, const std::string& res) {
		printf("%d %u %d %s %s\n", FAM_einteger, W, op, args.c_str(), res.c_str());
	}
	static void run(uint64_t seed, uint64_t count, unsigned maxl) {
		Rng g(seed * 977 + W);
		const int ops[] = {OP_add, OP_sub, OP_mul, OP_div, OP_rem, OP_lt, OP_eq, OP_le, OP_ge, OP_gt, OP_ne};
		for (uint64_t i = 0; i < count; ++i) {
			bool sa = g.below(2), sb = g.below(2);
			T a = mk(sa, gen_limbs(g, maxl)), b = mk(sb, gen_limbs(g, (g.below(3) == 0) ? maxl : 1 + (unsigned)g.below(maxl)));
			if (g.below(10) == 0) b = a;
			if (g.below(12) == 0) { b = a; b.setsign(!a.sign()); }
			if (g_zero && g.below(4) == 0) { b.clear(); }
			for (int op : ops) {
				std::string args = st(a) + "," + st(b);
				std::string r = guarded([&]() -> std::string {
					switch (op) {
					case OP_add: { T c = a; c += b; return st(c); }
					case OP_sub: { T c = a; c -= b; return st(c); }
					case OP_mul: { T c = a; c *= b; return st(c); }
					case OP_div: { T c = a; c /= b; return st(c); }
					case OP_rem: { T c = a; c %= b; return st(c); }
					case OP_lt: return b01(a < b); case OP_le: return b01(a <= b); case OP_gt: return b01(a > b);
					case OP_ge: return b01(a >= b); case OP_eq: return b01(a == b); default: return b01(a != b);
					}
				});
				line(op, args, r);
			}
			unsigned k = (unsigned)g.below(3 * W + 2);
			{ std::string r = guarded([&]() -> std::string { T c = a; c <<= (int)k; return st(c); }); line(OP_shl, st(a) + "," + hex64(k), r); }
			{ std::string r = guarded([&]() -> std::string { T c = a; c >>= (int)k; return st(c); }); line(OP_shr, st(a) + "," + hex64(k), r); }
			// a chain: the accumulator grows and shrinks; every step is a self-contained judged line
			T acc = a;
			for (unsigned s = 0; s < 6; ++s) {
				int op = ops[g.below(5)];
				T o = mk(g.below(2), gen_limbs(g, 1 + (unsigned)g.below(maxl)));
				std::string args = st(acc) + "," + st(o);
				T before = acc;
				std::string r = guarded([&]() -> std::string {
					switch (op) { case OP_add: acc += o; break; case OP_sub: acc -= o; break; case OP_mul: acc *= o; break; case OP_div: acc /= o; break; default: acc %= o; break; }
					return st(acc); });
				line(op, args, r);
				if (r[0] == '!') acc = before;
			}
		}
	}
};

// ---- edecimal -----------------------------------------------------------------
static std::string gen_dec(Rng& g, unsigned maxd) {
	unsigned n = 1 + (unsigned)g.below(maxd);
	std::string s;
	for (unsigned i = 0; i < n; ++i) {
		unsigned c = (unsigned)g.below(8);
		char d = (c == 0) ? '0' : (c == 1) ? '9' : (char)('0' + g.below(10));
		if (i == 0 && d == '0') d = '1';
		s.push_back(d);
	}
	if (g.below(2)) s = "-" + s;
	return s;
}
static std::string dstr(const edecimal& x) { std::stringstream ss; ss << x; return ss.str(); }
static void run_edecimal(uint64_t seed, uint64_t count) {
	Rng g(seed * 31337 + 5);
	const int ops[] = {OP_add, OP_sub, OP_mul, OP_div, OP_rem, OP_lt, OP_eq, OP_le, OP_ge, OP_gt, OP_ne};
	for (uint64_t i = 0; i < count; ++i) {
		std::string sa = gen_dec(g, 40), sb = gen_dec(g, g.below(3) ? 12 : 40);
		if (g.below(10) == 0) sb = sa;
		if (g.below(12) == 0) sb = (sa[0] == '-') ? sa.substr(1) : "-" + sa;
		if (g_zero && g.below(4) == 0) sb = "0";
		edecimal a, b; a.parse(sa); b.parse(sb);
		for (int op : ops) {
			std::string r = guarded([&]() -> std::string {
				edecimal c = a;
				switch (op) {
				case OP_add: c += b; return bytes_of(dstr(c)); case OP_sub: c -= b; return bytes_of(dstr(c));
				case OP_mul: c *= b; return bytes_of(dstr(c)); case OP_div: c /= b; return bytes_of(dstr(c));
				case OP_rem: c %= b; return bytes_of(dstr(c));
				case OP_lt: return bytes_of(b01(a < b)); case OP_le: return bytes_of(b01(a <= b)); case OP_gt: return bytes_of(b01(a > b));
				case OP_ge: return bytes_of(b01(a >= b)); case OP_eq: return bytes_of(b01(a == b)); default: return bytes_of(b01(a != b));
				}
			});
			printf("%d 0 %d %s %s\n", FAM_edecimal, op, bytes_of(sa + " " + sb).c_str(), r.c_str());
		}
		{ std::string r = guarded([&]() -> std::string { edecimal c = -a; return bytes_of(dstr(c)); }); printf("%d 0 %d %s %s\n", FAM_edecimal, OP_neg, bytes_of(sa).c_str(), r.c_str()); }
	}
}

// ---- erational ------------------------------------------------------------------
static void run_erational(uint64_t seed, uint64_t count) {
	Rng g(seed * 4241 + 9);
	const int ops[] = {OP_add, OP_sub, OP_mul, OP_div};
	auto gen = [&](std::string& n, std::string& d) { n = gen_dec(g, 12); d = gen_dec(g, 10); if (d[0] == '-') d = d.substr(1); if (g.below(8) == 0) n = "0"; };
	auto mk = [&](const std::string& n, const std::string& d) {
		erational r; edecimal en, ed; std::string nn = (n[0] == '-') ? n.substr(1) : n; en.parse(nn); ed.parse(d);
		r.setnumerator(en); r.setdenominator(ed); if (n[0] == '-') r.setneg(); else r.setpos(); return r; };
	for (uint64_t i = 0; i < count; ++i) {
		std::string an, ad, bn, bd; gen(an, ad); gen(bn, bd);
		erational a = mk(an, ad), b = mk(bn, bd);
		for (int op : ops) {
			std::string r = guarded([&]() -> std::string {
				erational c = a;
				switch (op) { case OP_add: c += b; break; case OP_sub: c -= b; break; case OP_mul: c *= b; break; default: c /= b; break; }
				return bytes_of(std::string(c.isneg() ? "1" : "0") + " " + dstr(c.top()) + " " + dstr(c.bottom()));
			});
			printf("%d 0 %d %s %s\n", FAM_erational, op, bytes_of(an + " " + ad + " " + bn + " " + bd).c_str(), r.c_str());
		}
	}
}

int main(int argc, char** argv) {
	Args A = parse_args(argc, argv);
	install_signal_guards();
	std::cerr.tie(nullptr);
	for (auto& r : A.rest) if (r == "--zero") g_zero = true;
	unsigned k = 0;
	auto mine = [&]() { return (k++ % A.nshards) == A.shard; };
	if (mine()) EI<uint8_t>::run(A.seed, A.count, 12);
	if (mine()) EI<uint16_t>::run(A.seed, A.count, 10);
	if (mine()) EI<uint32_t>::run(A.seed, A.count, 8);
	if (mine()) EI<uint8_t>::run(A.seed + 1000, A.count, 3);
	if (mine()) EI<uint32_t>::run(A.seed + 1000, A.count, 3);
	if (mine()) run_edecimal(A.seed, A.count);
	if (mine()) run_erational(A.seed, A.count);
	if (mine()) run_edecimal(A.seed + 1000, A.count);
	return 0;
}
