// Correspondence driver for posit<nbits,es>: runs the public API and prints raw bits.
// Build variants:  -DGRP_ARITH  (+ - * / reciprocal neg abs)      [C01]
//                  -DGRP_CMP    (six comparisons, ++, --)          [C06]
//                  -DGRP_CONV   (from/to native types)             [C03, C04]
//                  -DGRP_SQRT   (sqrt)                             [C17]
//                  -DFAST=1     compile with POSIT_FAST_SPECIALIZATION  [C11]
//                  -DTHROWING=1 POSIT_THROW_ARITHMETIC_EXCEPTION   [C19]
#ifdef FAST
#define POSIT_FAST_SPECIALIZATION 1
#endif
#ifdef THROWING
#define POSIT_THROW_ARITHMETIC_EXCEPTION 1
#endif
#include <universal/number/posit/posit.hpp>
#include <iostream>
#include <memory>
#include <map>
#include "common.hpp"

using namespace sw::universal;

struct Runner {
	unsigned n, es;
	virtual ~Runner() {}
	// returns result fields (hex), or a string starting with '!' for an exception
	virtual std::string run(int op, const std::vector<std::string>& a) = 0;
};

static uint64_t hexu(const std::string& s) { return strtoull(s.c_str(), nullptr, 16); }

template <unsigned N, unsigned ES>
struct R : Runner {
	using P = posit<N, ES>;
	R() { n = N; es = ES; }
	static P mk(const std::string& h) {
		P p;
		if constexpr (N <= 64) { p.setbits(hexu(h)); }
		else {
			internal::bitblock<N> bb;
			unsigned L = (unsigned)h.size();
			for (unsigned i = 0; i < N; ++i) {
				unsigned d = i / 4;
				if (d >= L) break;
				char c = h[L - 1 - d];
				unsigned v = (c <= '9') ? c - '0' : c - 'a' + 10;
				bb.set(i, (v >> (i % 4)) & 1);
			}
			p.setBitblock(bb);
		}
		return p;
	}
	static std::string out(const P& p) {
		auto bb = p.get();
		return hex_from_bits(N, [&](unsigned i) { return bb.test(i); });
	}
	std::string run(int op, const std::vector<std::string>& a) override {
		try {
			P x = mk(a[0]);
			switch (op) {
#ifdef GRP_ARITH
			case OP_add: return out(x + mk(a[1]));
			case OP_sub: return out(x - mk(a[1]));
			case OP_mul: return out(x * mk(a[1]));
			case OP_div: return out(x / mk(a[1]));
			case OP_rcp: return out(x.reciprocal());
			case OP_neg: return out(-x);
			case OP_abs: return out(abs(x));
#endif
#ifdef GRP_CMP
			case OP_eq: return (x == mk(a[1])) ? "1" : "0";
			case OP_ne: return (x != mk(a[1])) ? "1" : "0";
			case OP_lt: return (x < mk(a[1])) ? "1" : "0";
			case OP_le: return (x <= mk(a[1])) ? "1" : "0";
			case OP_gt: return (x > mk(a[1])) ? "1" : "0";
			case OP_ge: return (x >= mk(a[1])) ? "1" : "0";
			case OP_inc: { ++x; return out(x); }
			case OP_dec: { --x; return out(x); }
#endif
#ifdef GRP_SQRT
			case OP_sqrt: return out(sqrt(x));
#endif
			default: break;
			}
		} catch (const std::exception& e) {
			return std::string("!") + typeid(e).name();
		} catch (...) {
			return "!unknown";
		}
		return "?";
	}
};

#ifdef GRP_CONV
// native conversions are in a separate template to keep the arithmetic build small
#endif

static std::vector<std::unique_ptr<Runner>> g_small, g_large;
template <unsigned N, unsigned ES> static void regS() { g_small.emplace_back(new R<N, ES>()); }
template <unsigned N, unsigned ES> static void regL() { g_large.emplace_back(new R<N, ES>()); }

static void registry() {
#ifndef NO_SMALL
	regS<2,0>(); regS<3,0>(); regS<3,1>(); regS<4,0>(); regS<4,1>(); regS<4,2>();
	regS<5,0>(); regS<5,1>(); regS<5,2>(); regS<5,3>();
	regS<6,0>(); regS<6,1>(); regS<6,2>(); regS<6,3>(); regS<6,4>();
	regS<7,0>(); regS<7,1>(); regS<7,2>(); regS<7,3>(); regS<7,4>();
	regS<8,0>(); regS<8,1>(); regS<8,2>(); regS<8,3>(); regS<8,4>(); regS<8,5>();
#endif
#ifdef WITH_MID
	regS<9,0>(); regS<9,1>(); regS<9,2>(); regS<10,0>(); regS<10,1>(); regS<10,2>(); regS<10,3>();
#endif
#ifndef NO_LARGE
	regL<11,0>(); regL<12,1>(); regL<13,2>(); regL<16,0>(); regL<16,1>(); regL<16,2>(); regL<16,3>(); regL<17,1>();
	regL<20,1>(); regL<24,2>(); regL<28,3>(); regL<32,0>(); regL<32,1>(); regL<32,2>(); regL<32,3>(); regL<33,2>();
	regL<40,2>(); regL<48,2>(); regL<56,3>(); regL<64,0>(); regL<64,2>(); regL<64,3>(); regL<64,4>();
#ifdef WITH_WIDE
	regL<80,2>(); regL<128,4>();
#endif
#endif
}

static const int OPS2[] = {
#ifdef GRP_ARITH
	OP_add, OP_sub, OP_mul, OP_div,
#endif
#ifdef GRP_CMP
	OP_eq, OP_ne, OP_lt, OP_le, OP_gt, OP_ge,
#endif
};
static const int OPS1[] = {
#ifdef GRP_ARITH
	OP_rcp, OP_neg, OP_abs,
#endif
#ifdef GRP_CMP
	OP_inc, OP_dec,
#endif
#ifdef GRP_SQRT
	OP_sqrt,
#endif
};

static void emit(Runner& r, int op, const std::vector<std::string>& a) {
	std::string res = r.run(op, a);
	printf("%d %u,%u %d ", FAM_posit, r.n, r.es, op);
	for (size_t i = 0; i < a.size(); ++i) printf("%s%s", i ? "," : "", a[i].c_str());
	printf(" %s\n", res.c_str());
}

// width-n pattern as hex from up to 128 bits of randomness / structure
static std::string pat(unsigned n, const std::vector<bool>& bits) {
	return hex_from_bits(n, [&](unsigned i) { return (bool)bits[i]; });
}

// structured operand generator: specials, extremes, every regime length with
// empty/zero/ones/random/sparse tails
static std::vector<bool> gen_operand(Rng& g, unsigned n) {
	std::vector<bool> b(n, false);
	unsigned k = (unsigned)g.below(16);
	auto setmag = [&](const std::vector<bool>& m, bool neg) {   // m: n-1 magnitude bits, two's complement if neg
		std::vector<bool> v(n, false);
		for (unsigned i = 0; i + 1 < n; ++i) v[i] = m[i];
		if (neg) {   // two's complement: invert, add one
			for (unsigned i = 0; i < n; ++i) v[i] = !v[i];
			bool c = true;
			for (unsigned i = 0; i < n && c; ++i) { bool t = v[i]; v[i] = !t; c = t; }
		}
		return v;
	};
	std::vector<bool> m(n - 1, false);
	bool neg = g.below(2);
	switch (k) {
	case 0: return b;                                   // zero
	case 1: b[n - 1] = true; return b;                  // NaR
	case 2: m[0] = true; return setmag(m, neg);         // +-minpos
	case 3: for (auto&& x : m) x = true; return setmag(m, neg);   // +-maxpos
	case 4: if (n >= 2) m[n - 2] = true; return setmag(m, neg);   // +-1
	case 5: { if (n >= 2) m[n - 2] = true; if (g.below(2)) m[0] = true; else { m[n - 2] = false; for (unsigned i = 0; i + 2 < n; ++i) m[i] = true; } return setmag(m, neg); } // 1 +- ulp
	case 6: case 7: {                                   // uniform random encoding
		for (unsigned i = 0; i < n; ++i) b[i] = g.below(2);
		return b; }
	default: {                                          // regime run r, tail class
		unsigned L = n - 1;
		unsigned r = 1 + (unsigned)g.below(L);          // run length 1..L
		bool ones = g.below(2);
		unsigned pos = L;                               // next bit index to fill (exclusive), msb first
		for (unsigned i = 0; i < r && pos > 0; ++i) m[--pos] = ones;
		if (pos > 0) m[--pos] = !ones;                  // terminator
		unsigned tail = pos;
		unsigned cls = (unsigned)g.below(5);
		for (unsigned i = 0; i < tail; ++i) {
			switch (cls) {
			case 0: m[i] = false; break;
			case 1: m[i] = true; break;
			case 2: m[i] = g.below(2); break;
			case 3: m[i] = (i + 4 >= tail) ? g.below(2) : false; break;     // sparse: only top bits
			default: m[i] = (i < 2) ? g.below(2) : ((i + 3 >= tail) ? g.below(2) : false); break;  // top + bottom bits
			}
		}
		bool allz = true; for (auto x : m) allz = allz && !x;
		if (allz) m[0] = true;
		return setmag(m, neg);
	}
	}
}

static std::vector<bool> tweak(Rng& g, const std::vector<bool>& a, unsigned n) {
	// related second operand: equal, negated, +-1 encoding step, or independent
	std::vector<bool> b = a;
	auto add1 = [&](std::vector<bool>& v, bool up) {
		bool c = true;   // up: add one (flip while old bit was 1); down: subtract one (flip while old bit was 0)
		for (unsigned i = 0; i < n && c; ++i) { bool t = v[i]; v[i] = !t; c = up ? t : !t; }
	};
	auto negate = [&](std::vector<bool>& v) { for (unsigned i = 0; i < n; ++i) v[i] = !v[i]; add1(v, true); };
	switch (g.below(8)) {
	case 0: return b;
	case 1: negate(b); return b;
	case 2: add1(b, true); return b;
	case 3: add1(b, false); return b;
	case 4: negate(b); add1(b, g.below(2)); return b;
	default: return gen_operand(g, n);
	}
}

int main(int argc, char** argv) {
	Args A = parse_args(argc, argv);
	registry();
	if (A.mode == "exh") {
		for (auto& r : g_small) {
			uint64_t NN = 1ull << r->n;
			for (uint64_t a = A.shard; a < NN; a += A.nshards) {
				std::string ha = hex64(a);
				for (int op : OPS1) emit(*r, op, {ha});
				for (uint64_t b = 0; b < NN; ++b) {
					std::string hb = hex64(b);
					for (int op : OPS2) emit(*r, op, {ha, hb});
				}
			}
		}
	} else if (A.mode == "rnd") {
		unsigned idx = 0;
		for (auto& r : g_large) {
			if ((idx++ % A.nshards) != A.shard) continue;
			Rng g(A.seed * 0x100000001b3ull + r->n * 131 + r->es);
			for (uint64_t i = 0; i < A.count; ++i) {
				auto a = gen_operand(g, r->n);
				auto b = tweak(g, a, r->n);
				std::string ha = pat(r->n, a), hb = pat(r->n, b);
				for (int op : OPS1) emit(*r, op, {ha});
				for (int op : OPS2) emit(*r, op, {ha, hb});
			}
		}
	} else if (A.mode == "cases") {
		// replay: lines "<fam> <n>,<es> <op> <args>[ <ignored>]"
		char buf[4096];
		while (fgets(buf, sizeof buf, stdin)) {
			unsigned fam, n, es; int op; char args[2048];
			if (sscanf(buf, "%u %u,%u %d %2047s", &fam, &n, &es, &op, args) != 5) continue;
			std::vector<std::string> a;
			char* save; for (char* t = strtok_r(args, ",", &save); t; t = strtok_r(nullptr, ",", &save)) a.push_back(t);
			bool done = false;
			for (auto* reg : {&g_small, &g_large})
				for (auto& r : *reg) if (!done && r->n == n && r->es == es) { emit(*r, op, a); done = true; }
			if (!done) printf("# no such configuration posit<%u,%u> in this driver\n", n, es);
		}
	}
	return 0;
}
