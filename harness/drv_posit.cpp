// Correspondence driver for posit<nbits,es>: runs the public API and prints raw bits.
// groups (--group): arith (+ - * / reciprocal neg abs)   [C01]
//                   cmp   (six comparisons, ++, --)        [C06]
//                   conv  (from/to native types)           [C03, C04]
//                   sqrt                                   [C17]
// build variants:   -DFAST=1 POSIT_FAST_SPECIALIZATION [C11]; -DTHROWING=1 POSIT_THROW_ARITHMETIC_EXCEPTION [C19]
#ifdef FAST
#define POSIT_FAST_SPECIALIZATION 1
#endif
#ifdef THROWING
#define POSIT_THROW_ARITHMETIC_EXCEPTION 1
#endif
#include <universal/number/posit/posit.hpp>
#include <cmath>
#include "drvkit.hpp"
using namespace sw::universal;

static std::string g_group = "arith";

#include "posit_gen.hpp"

template <unsigned N, unsigned ES>
struct R : Runner {
	using T = posit<N, ES>;
	struct Tr {
		static T mk(const std::string& h) {
			T p;
			if constexpr (N <= 64) { p.setbits(hexu64(h)); }
			else {
				internal::bitblock<N> bb;
				unsigned L = (unsigned)h.size();
				for (unsigned i = 0; i < N; ++i) {
					unsigned d = i / 4;
					if (d >= L) break;
					char c = h[L - 1 - d];
					unsigned v = (c <= '9') ? c - '0' : c - 'a' + 10;
					bb.set(i, (v >> (i % 4)) & 1);
				}
				p.setBitblock(bb);
			}
			return p;
		}
		static std::string out(const T& p) {
			auto bb = p.get();
			return hex_from_bits(N, [&](unsigned i) { return bb.test(i); });
		}
	};
	R(bool sm) {
		fam = FAM_posit; nbits = N; small = sm;
		cfg = std::to_string(N) + "," + std::to_string(ES);
		if (g_group == "arith") { ops1 = {OP_rcp, OP_neg, OP_abs}; ops2 = {OP_add, OP_sub, OP_mul, OP_div}; }
		if (g_group == "cmp") { ops1 = {OP_inc, OP_dec}; ops2 = {OP_eq, OP_ne, OP_lt, OP_le, OP_gt, OP_ge}; }
		if (g_group == "conv") { ops1 = {OP_to_f64, OP_to_f32, OP_to_f64_rt}; }
		if (g_group == "sqrt") { ops1 = {OP_sqrt}; }
		if (g_group == "all1") { ops1 = {OP_rcp, OP_neg, OP_abs, OP_inc, OP_dec, OP_sqrt, OP_to_f64, OP_to_f32}; ops2 = {OP_add, OP_sub, OP_mul, OP_div, OP_eq, OP_ne, OP_lt, OP_le, OP_gt, OP_ge}; }
	}
	std::string run(int op, const std::vector<std::string>& a) override {
		return guarded([&]() -> std::string {
			if (op == OP_limits) return limits_of<T, Tr>(false);
			if (op >= OP_from_f32 && op <= OP_to_f80) return native_conv<T, Tr>(op, a);
			T x = Tr::mk(a[0]);
			switch (op) {
			case OP_add: return Tr::out(x + Tr::mk(a[1]));
			case OP_sub: return Tr::out(x - Tr::mk(a[1]));
			case OP_mul: return Tr::out(x * Tr::mk(a[1]));
			case OP_div: return Tr::out(x / Tr::mk(a[1]));
			case OP_rcp: if constexpr (requires(T t) { t.reciprocal(); }) return Tr::out(x.reciprocal()); else return "?unsupported";
			case OP_neg: return Tr::out(-x);
			case OP_abs: if constexpr (requires(T t) { t.abs(); }) return Tr::out(abs(x)); else return "?unsupported";
			case OP_sqrt: return Tr::out(sqrt(x));
			case OP_inc: { ++x; return Tr::out(x); }
			case OP_dec: { --x; return Tr::out(x); }
			case OP_eq: return b01(x == Tr::mk(a[1]));
			case OP_ne: return b01(x != Tr::mk(a[1]));
			case OP_lt: return b01(x < Tr::mk(a[1]));
			case OP_le: return b01(x <= Tr::mk(a[1]));
			case OP_gt: return b01(x > Tr::mk(a[1]));
			case OP_ge: return b01(x >= Tr::mk(a[1]));
			default: return "?";
			}
		});
	}
	void extra(const std::string& ha, Rng& g, const std::function<void(int, std::vector<std::string>)>& emit) override {
		if (g_group == "cmp" && ha.find_first_not_of('0') == std::string::npos) emit(OP_limits, {});
		if (g_group != "conv" && g_group != "all1") return;
		bool first = ha.find_first_not_of('0') == std::string::npos;
		// the lattice values are computed from the bits by the driver (not by the library), so that two builds
		// of the library are always fed identical source lists
		uint64_t ab = (N <= 64) ? hexu64(ha.size() > 16 ? ha.substr(ha.size() - 16) : ha) : 0;
		double v = (N <= 64) ? posit_bits_to_double(N, ES, ab) : 0.0;
		double v2 = (N <= 64) ? posit_bits_to_double(N, ES, ab + 1) : 0.0;
		native_sources(v, v2, first, g, emit);
		emit(OP_to_int, {"20", ha}); emit(OP_to_int, {"40", ha});
	}
	std::vector<bool> gen(Rng& g) override { return gen_operand(g, N); }
};

template <unsigned N, unsigned ES> static void regS() { g_runners.emplace_back(new R<N, ES>(true)); }
template <unsigned N, unsigned ES> static void regL() { g_runners.emplace_back(new R<N, ES>(false)); }

int main(int argc, char** argv) {
	g_group = parse_group(argc, argv, g_group);
#ifdef FASTSET
	// exactly the configurations that have fast specialisations
	regS<2,0>(); regS<3,0>(); regS<3,1>(); regS<4,0>(); regS<8,0>(); regS<8,1>(); regS<8,2>();
	regL<16,1>(); regL<16,2>(); regL<32,2>();
#else
#ifndef NO_SMALL
	regS<2,0>(); regS<3,0>(); regS<3,1>(); regS<4,0>(); regS<4,1>(); regS<4,2>();
	regS<5,0>(); regS<5,1>(); regS<5,2>(); regS<5,3>();
	regS<6,0>(); regS<6,1>(); regS<6,2>(); regS<6,3>(); regS<6,4>();
	regS<7,0>(); regS<7,1>(); regS<7,2>(); regS<7,3>(); regS<7,4>();
	regS<8,0>(); regS<8,1>(); regS<8,2>(); regS<8,3>(); regS<8,4>(); regS<8,5>();
#endif
#ifdef WITH_MID
	regS<9,0>(); regS<9,1>(); regS<9,2>(); regS<10,0>(); regS<10,1>(); regS<10,2>(); regS<10,3>();
#endif
#ifdef WITH_16
	regS<12,1>(); regS<16,1>(); regS<16,2>(); regS<14,0>();
#endif
#ifndef NO_LARGE
	regL<11,0>(); regL<12,1>(); regL<13,2>(); regL<16,0>(); regL<16,1>(); regL<16,2>(); regL<16,3>(); regL<17,1>();
	regL<20,1>(); regL<24,2>(); regL<28,3>(); regL<32,0>(); regL<32,1>(); regL<32,2>(); regL<32,3>(); regL<33,2>();
	regL<40,2>(); regL<48,2>(); regL<56,3>(); regL<64,0>(); regL<64,2>(); regL<64,3>(); regL<64,4>();
#ifdef WITH_WIDE
	regL<80,2>(); regL<128,4>();
#endif
#endif
#endif
	return drv_main(argc, argv);
}
